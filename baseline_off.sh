#!/bin/bash
# Guard OFF: rebuild the engine from /repo's working tree WITHOUT -DOPTREE_VERIF_HOOKS, install it
# where the repository's tests import it from (/repo/optree/, git-ignored), and run the baseline.
set -e
cd "$(dirname "$0")"
OV=$(/venv/bin/python optsim/build.py plain | tail -1)
cp "$OV/optree/_C.cpython-312-x86_64-linux-gnu.so" /repo/optree/_C.cpython-312-x86_64-linux-gnu.so
cd /repo
unset OPTREE_VERIF
exec /venv/bin/python -m pytest -ra -q -p no:cacheprovider --timeout=900 --continue-on-collection-errors "$@"
