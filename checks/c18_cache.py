"""C18 — the Python twins of engine logic give the same answers as the engine, whatever the cache
history.

Engine ``cache``: a single task runs a tape-generated history over a class universe generated per
run (namedtuple subclasses, look-alikes missing one trait, struct sequences, odd tuple subclasses,
metaclass-served attributes, non-classes): query / flatten / drop / gc / churn (create, classify and
free transient classes so that caches fill, evict and addresses are recycled) / set_cap (hook: the
4096-slot cap becomes a per-run knob).  After every step the engine's answers for every live class
equal the cache-free twins' answers computed now, and (hook) every cache entry belongs to a live
type and stores a fresh answer.  Two pure twin comparisons ride along: total-order sort and
one-level flatten.
"""
from __future__ import annotations

import collections
import gc
import hashlib
import os
import sys
import time
import typing
import weakref
from collections import OrderedDict, defaultdict, deque

import optree
import optree.utils
from optree import _C

from optsim import gen
from optsim import universe as U
from optsim.same import same
from optsim.scenario import GLOBAL, Registry
from optsim.tape import Tape, derive_seed

PROPERTY = 'C18'
LEVEL = 'exploration'
RULE = ('seeded histories (<= 60 steps, <= 200 live classes) over {new(shape), query all six twin pairs on class and instance, '
        'flatten(instance), drop, gc, churn(n <= 3*cap transient classes of alternating kinds), set_cap(c in 2..64), sortcmp '
        '(total_order_sorted vs engine key order), onelevel (tree_flatten_one_level vs treespec inspection)}; after every step '
        'every live class is re-queried on engine and twin. distinct = distinct (class shape, cache situation in {miss, hit, '
        'evicted, cap-full, address-reused, address-reused-other-kind}, engine answer) + distinct sort/one-level input classes; '
        'non-trivial = the class was created inside the run')
ASSUMPTIONS = [
    'attribute edits on an already classified class are excluded (the engine memoises per class by design)',
    'instrumented metaclass hooks raise AttributeError only (other exceptions are absorbed differently by design)',
    'address reuse is provoked and measured, not controlled; plain (non-ASan) build only because ASan quarantine suppresses reuse',
    'type-cache cap is a run-time knob only in the hook build (default 4096 unchanged)',
]
REAL_VS_STUB = {
    'real': ['engine classification + caches + weakref eviction', 'Python twins in optree/typing.py, optree/utils.py, optree/ops.py',
             'CPython allocator / gc / weakref callbacks'],
    'stub_or_simulator_owned': ['class universe', 'GC timing (disabled; injected)', 'cache capacity (hook knob)', 'history (choice tape)'],
}
EXPECTED_PROBES = ('address-reused-of-last-classified', 'cache:miss', 'cache:hit', 'cache:evicted', 'cache:cap-full', 'address-reused', 'address-reused-other-kind',
                   'step:churn', 'step:set_cap', 'step:sortcmp', 'step:onelevel', 'sort:first-failed', 'sort:both-failed')

V = _C._verif if hasattr(_C, '_verif') else None

PAIRS = ('is_namedtuple', 'is_namedtuple_instance', 'is_namedtuple_class', 'namedtuple_fields',
         'is_structseq', 'is_structseq_instance', 'is_structseq_class', 'structseq_fields')
ENG = {n: getattr(_C, n) for n in PAIRS}
TWIN = {n: getattr(optree, n).__python_implementation__ for n in PAIRS}

STRUCTSEQS = [time.struct_time, type(sys.float_info), type(sys.version_info), os.stat_result, type(sys.flags), os.terminal_size,
              type(sys.hash_info), type(sys.thread_info), type(sys.int_info), os.times_result]

SHAPES = ('desc_fields', 'fields_tuplesub', 'fields_namedtuple_inst', 'nfields_intsub', 'nt', 'nt_typing', 'nt_sub', 'nt_subsub', 'nt_empty', 'fields_list', 'fields_nonstr', 'fields_strsub', 'no_make',
          'no_asdict', 'make_noncallable', 'not_tuple', 'tuple_plain', 'tuple_nfields', 'tuple_nfields_bool', 'meta_fields',
          'meta_none', 'plain')


def tier_config(tier):
    if tier == 'thorough':
        return {'budget_s': 900, 'flavours': ['hooks'], 'run_timeout': 300, 'determinism_sample': 16}
    return {'budget_s': 50, 'flavours': ['hooks'], 'run_timeout': 120, 'determinism_sample': 8}


def jobs(tier, seed, flavours):
    if tier == 'thorough':
        for j in range(3):
            yield {'i': -10 - j, 'seed': seed, 'default_cap': True}
    i = 0
    while True:
        yield {'i': i, 'seed': seed}
        i += 1


def warmup():
    class IO:
        def progress(self, o):
            pass
    found = []
    for i in range(4):
        found.extend(run_job({'i': i, 'seed': 31337}, IO()).get('violations') or [])  # what a warm-up run finds counts
    for c in STRUCTSEQS:
        for n in PAIRS:
            for f in (ENG[n], TWIN[n]):
                try:
                    f(c)
                except TypeError:
                    pass
    if V is not None:
        V.set_type_cache_cap(4096)
    return found


class StrSub(str):
    pass


class ClassDescriptor:
    """non-data descriptor: `cls._fields` is computed on access"""

    def __init__(self, value):
        self.value = value

    def __get__(self, obj, owner):
        return self.value


class TupleSub(tuple):
    pass


class IntSub(int):
    pass


class ServeMeta(type):
    """Metaclass serving namedtuple traits from __getattr__ (a scenario callback)."""

    def __getattr__(cls, name):
        U._h('meta.__getattr__')
        served = cls.__dict__.get('__served__', {})
        if name in served:
            return served[name]
        raise AttributeError(name)


def make_class(shape, n):
    """Return (cls, make_instance or None)."""
    name = 'K%s%d' % (shape, n)
    if shape == 'nt':
        c = collections.namedtuple(name, ['a', 'b'])
        return c, lambda: c(1, 2)
    if shape == 'nt_typing':
        c = typing.NamedTuple(name, [('p', int), ('q', int)])
        return c, lambda: c(1, 2)
    if shape == 'nt_sub':
        c = type(name, (collections.namedtuple(name + 'B', ['a']),), {'__slots__': ()})
        return c, lambda: c(1)
    if shape == 'nt_subsub':
        b = type(name + 'S', (collections.namedtuple(name + 'B', ['a', 'b', 'c']),), {})
        c = type(name, (b,), {})
        return c, lambda: c(1, 2, 3)
    if shape == 'nt_empty':
        c = collections.namedtuple(name, [])
        return c, lambda: c()
    base_attrs = {'_make': classmethod(lambda cls, it: cls(tuple(it))), '_asdict': lambda self: {}}
    if shape == 'fields_list':
        c = type(name, (tuple,), dict(base_attrs, _fields=['a', 'b']))
    elif shape == 'fields_nonstr':
        c = type(name, (tuple,), dict(base_attrs, _fields=('a', 1)))
    elif shape == 'fields_strsub':
        c = type(name, (tuple,), dict(base_attrs, _fields=('a', StrSub('b'))))
    elif shape == 'desc_fields':
        c = type(name, (tuple,), dict(base_attrs, _fields=ClassDescriptor(('a', 'b'))))
    elif shape == 'fields_tuplesub':
        c = type(name, (tuple,), dict(base_attrs, _fields=TupleSub(('a', 'b'))))
    elif shape == 'fields_namedtuple_inst':
        c = type(name, (tuple,), dict(base_attrs, _fields=U.NT1('a', 'b')))
    elif shape == 'nfields_intsub':
        c = type(name, (tuple,), {'n_fields': IntSub(2), 'n_sequence_fields': IntSub(2), 'n_unnamed_fields': IntSub(0)})
    elif shape == 'no_make':
        c = type(name, (tuple,), {'_fields': ('a',), '_asdict': lambda self: {}})
    elif shape == 'no_asdict':
        c = type(name, (tuple,), {'_fields': ('a',), '_make': classmethod(lambda cls, it: cls(tuple(it)))})
    elif shape == 'make_noncallable':
        c = type(name, (tuple,), dict(base_attrs, _fields=('a',), _make=3))
    elif shape == 'not_tuple':
        c = type(name, (object,), dict(base_attrs, _fields=('a',)))
        return c, lambda: c()
    elif shape == 'tuple_plain':
        c = type(name, (tuple,), {})
    elif shape == 'tuple_nfields':
        c = type(name, (tuple,), {'n_fields': 2, 'n_sequence_fields': 2, 'n_unnamed_fields': 0})
    elif shape == 'tuple_nfields_bool':
        c = type(name, (tuple,), {'n_fields': True, 'n_sequence_fields': 1, 'n_unnamed_fields': False, '_fields': ('a',)})
    elif shape == 'meta_fields':
        c = ServeMeta(name, (tuple,), {'__served__': {'_fields': ('x', 'y'), '_make': len, '_asdict': len}})
    elif shape == 'meta_none':
        c = ServeMeta(name, (tuple,), {'__served__': {'_fields': ('x',)}})
    elif shape == 'plain':
        c = type(name, (object,), {})
        return c, lambda: c()
    else:
        raise AssertionError(shape)
    return c, lambda: c((1, 2))


def answers(impl, obj_cls, inst):
    out = []
    for n in PAIRS:
        for arg_name, arg in (('cls', obj_cls), ('inst', inst)):
            if arg is NOARG:
                continue
            try:
                r = impl[n](arg)
                out.append((n, arg_name, 'ok', r))
            except TypeError:
                out.append((n, arg_name, 'TypeError', None))
            except Exception as e:  # noqa: BLE001
                out.append((n, arg_name, type(e).__name__, None))
    return out


NOARG = object()


def run_job(job, io):
    tape = Tape(replay=job['tape']) if 'tape' in job else Tape(seed=derive_seed(job.get('seed', 0), PROPERTY, job.get('i', 0)))
    violations, keys, probes = [], set(), collections.Counter()
    oplog = []
    U.HOOK = None
    live = []  # [cls, shape, make_inst, situation]
    freed_ids = {}  # id -> kind (True = was namedtuple) of a class we created and confirmed dead
    counter = [0]
    last_checked = [None]
    cap = [4096]
    max_cap = [4096]
    default_cap = bool(job.get('default_cap'))
    if V is not None and not default_cap:
        cap[0] = 2 + tape.draw(63, 'cap0')
        V.set_type_cache_cap(cap[0])
        max_cap[0] = max(cap[0], len((V.snapshots().get('namedtuple') or {})))
    reg = Registry()
    custom_funcs = {U.CA: reg.register(U.CA, 'ns', style=tape.draw(4, 'style')),
                    U.CB: reg.register(U.CB, GLOBAL, style=tape.draw(4, 'style-g'))}
    else_branch = True
    setup_viols = []
    if tape.draw(2, 'double-registration'):
        else_branch = False
        # the same classes ALSO registered in the other place, with callables that list the children in reverse: in namespace
        # 'ns' the named registration must win on both sides, elsewhere the global one
        reg.register(U.CA, GLOBAL, style=tape.draw(4, 'style-ca-g')).reverse = True
        reg.register(U.CB, 'ns', style=tape.draw(4, 'style-cb-ns')).reverse = True
        probes['double-registration'] += 1
    if else_branch and tape.draw(2, 'mis-targeted-unregister'):
        # unregistering from a namespace in which the class is NOT registered (it is registered elsewhere) must fail and change
        # nothing, on both sides: the comparisons below would see an engine that let go of the other registration
        for cls_m, ns_m in ((U.CB, 'ns'), (U.CA, 'other'), (U.NTM, 'ns')):
            try:
                optree.unregister_pytree_node(cls_m, namespace=ns_m)
                setup_viols.append(('twin-disagree', 'unregister:absent', 'unregister_pytree_node(%s, namespace=%r) succeeded although it is not registered there' % (cls_m.__name__, ns_m)))
            except ValueError:
                pass
            except Exception as e:  # noqa: BLE001
                setup_viols.append(('twin-disagree', 'unregister:absent', 'unregister_pytree_node(%s, namespace=%r) of an absent registration raised %s (documented: ValueError)' % (cls_m.__name__, ns_m, type(e).__name__)))
        probes['mis-targeted-unregister'] += 1
    import warnings as _w
    with _w.catch_warnings():
        _w.simplefilter('ignore')
        # classes the heuristics would treat as namedtuple / struct sequence, explicitly registered as custom nodes:
        # the explicit registration must win on both sides, in the namespace it was made in only
        reg.register(U.NT2, 'ns', style=1)
        reg.register(U.STRUCTSEQ_TYPES[0], 'ns', style=3)
        reg.register(U.NTM, GLOBAL, style=0)

    def viol(cls, site, msg):
        if len(violations) < 6:
            violations.append({'cls': cls, 'site': site, 'msg': '%s | history=%s' % (msg, oplog[-8:])})

    for sv in setup_viols:
        viol(*sv)

    def new_class(shape):
        counter[0] += 1
        c, mk = make_class(shape, counter[0])
        if id(c) == last_checked[0]:
            probes['address-reused-of-last-classified'] += 1
        if id(c) in freed_ids:
            probes['address-reused'] += 1
            was_nt = freed_ids.pop(id(c))
            now_nt = shape.startswith('nt') or shape == 'meta_fields'
            if was_nt != now_nt:
                probes['address-reused-other-kind'] += 1
                sit = 'address-reused-other-kind'
            else:
                sit = 'address-reused'
        else:
            sit = 'miss'
        return [c, shape, mk, sit]

    def check_class(ent, site):
        c, shape, mk, sit = ent
        last_checked[0] = id(c)
        try:
            inst = mk() if mk is not None else NOARG
        except Exception:  # noqa: BLE001
            inst = NOARG
        cached_before = None
        if V is not None:
            snap = V.snapshots()
            cached_before = id(c) in (snap.get('namedtuple') or {})
        twin = answers(TWIN, c, inst)
        eng = answers(ENG, c, inst)
        if twin != eng:
            diffs = [(t, e) for t, e in zip(twin, eng) if t != e]
            viol('twin-disagree', 'classify:%s' % shape, 'engine and Python twin disagree for class shape %s (%s): %r' % (shape, sit, diffs[:3]))
        if V is not None:
            snap = V.snapshots()
            nt = snap.get('namedtuple') or {}
            ss = snap.get('structseq') or {}
            if id(c) in nt:
                probes['cache:hit' if cached_before else 'cache:miss'] += 1
                want = TWIN['is_namedtuple_class'](c)
                if nt[id(c)] != want:
                    viol('stale-cache', 'cache:%s' % shape, 'namedtuple cache holds %r for a live class whose fresh classification is %r (%s)' % (nt[id(c)], want, sit))
            else:
                probes['cache:cap-full'] += 1
                ent[3] = 'cap-full'
            if id(c) in ss and ss[id(c)] != TWIN['is_structseq_class'](c):
                viol('stale-cache', 'cache:%s' % shape, 'structseq cache holds a stale answer for a live class')
            for nm, tab in (('namedtuple', nt), ('structseq', ss)):
                if len(tab) > max_cap[0]:
                    viol('cap-exceeded', 'cache:%s' % nm, '%s cache has %d entries, cap %d' % (nm, len(tab), max_cap[0]))
        keys.add('%s|%s|%s' % (shape, ent[3], eng[2][2:] if len(eng) > 2 else ''))
        if sit in ('miss', 'address-reused', 'address-reused-other-kind') and ent[3] != 'cap-full':
            ent[3] = 'hit'
        # engine classification in action
        if inst is not NOARG:
            try:
                kind = optree.tree_structure(inst).kind
                want_kind = (optree.PyTreeKind.STRUCTSEQUENCE if TWIN['is_structseq_class'](c) else
                             optree.PyTreeKind.NAMEDTUPLE if TWIN['is_namedtuple_class'](c) else optree.PyTreeKind.LEAF)
                if kind != want_kind:
                    viol('twin-disagree', 'flatten:%s' % shape, 'flatten treats an instance of shape %s as %s; twins say %s' % (shape, kind, want_kind))
            except Exception as e:  # noqa: BLE001
                viol('twin-disagree', 'flatten:%s' % shape, 'flatten of an instance of shape %s raised %s: %s' % (shape, type(e).__name__, e))

    def drop(idx):
        ent = live.pop(idx)
        c = ent[0]
        cid = id(c)
        was_nt = bool(TWIN['is_namedtuple_class'](c))
        wr = weakref.ref(c)
        del ent, c
        return cid, was_nt, wr

    def confirm_freed(pending):
        # Classes die only in this collection (they are cyclic and gc is disabled elsewhere), so right after it no new
        # class can have taken a freed address yet: every entry still cached under a dead class's address is stale.
        all_pending.extend(pending)
        del pending[:]
        gc.collect()
        todo = list(all_pending)
        del all_pending[:]
        for item in todo:
            cid, was_nt, wr = item
            if wr() is not None:
                all_pending.append(item)
                continue
            if True:
                freed_ids[cid] = was_nt
                if V is not None:
                    snap = V.snapshots()
                    for nm in ('namedtuple', 'structseq', 'structseq_fields'):
                        if cid in (snap.get(nm) or {}):
                            viol('not-evicted', 'cache:%s' % nm, '%s cache still has an entry for a class that has been freed (address may be reused by another class)' % nm)
                        else:
                            probes['cache:evicted'] += 1

    pending_free = []
    all_pending = []
    n_steps = 6 + tape.draw(55, 'n-steps')
    steps = 0
    for c in STRUCTSEQS[:2 + tape.draw(len(STRUCTSEQS) - 2, 'n-ss')]:
        live.append([c, 'structseq', None, 'hit'])
    for _ in range(n_steps):
        kind = tape.weighted([(6, 'new'), (3, 'query'), (3, 'drop'), (2, 'gc'), (2, 'churn'), (1, 'set_cap'), (2, 'sortcmp'), (2, 'onelevel'), (1, 'nonclass')], 'step')
        steps += 1
        probes['step:' + kind] += 1
        site = kind
        io.progress({'site': site, 'tape': tape.values})
        if kind == 'new':
            if len(live) < 200:
                shape = SHAPES[tape.draw(len(SHAPES), 'shape')]
                ent = new_class(shape)
                live.append(ent)
                oplog.append('new:%s' % shape)
        elif kind == 'query':
            oplog.append('query')
        elif kind == 'drop':
            mine = [i for i, e in enumerate(live) if e[1] != 'structseq']
            if mine:
                all_pending.append(drop(mine[tape.draw(len(mine), 'drop-i')]))
                oplog.append('drop')
        elif kind == 'gc':
            confirm_freed([])
            oplog.append('gc')
        elif kind == 'churn':
            n = 1 + tape.draw(3 * min(cap[0], 64) if not default_cap else 3 * 4096 + 1, 'churn-n')
            if default_cap:
                n = 4096 + 64 + tape.draw(200, 'churn-extra')
            # batch = how many transient classes are alive together before they are freed.  With batch 1 a freed class's
            # address is reused by the very next class (the allocator is LIFO), i.e. the class classified LAST is replaced
            # by a class of another kind that is asked about NEXT — per-"last answer" memos are only visible that way;
            # larger batches exercise the table / eviction / cap paths (glibc's tcache holds 7 chunks, so with batches
            # of 8 the last-freed chunk is never the first one reused).
            bsize = (1, 1, 2, 3, 8, 8)[tape.draw(6, 'churn-batch')] if not default_cap else 512
            oplog.append('churn:%d/%d' % (n, bsize))
            batch = []
            for j in range(n):
                shape = ('nt', 'tuple_plain', 'nt_sub', 'fields_list', 'plain', 'nt')[j % 6] if tape.draw(2, 'churn-kind') == 0 or default_cap else SHAPES[j % len(SHAPES)]
                ent = new_class(shape)
                check_class(ent, 'churn')
                batch.append(ent)
                ent = None  # the loop variable must not keep the class alive across the collection below
                if len(batch) >= bsize:
                    pend = []
                    while batch:
                        live.append(batch.pop())
                        pend.append(drop(len(live) - 1))
                    confirm_freed(pend)
                if violations:
                    break
            pend = []
            while batch:
                live.append(batch.pop())
                pend.append(drop(len(live) - 1))
            confirm_freed(pend)
        elif kind == 'set_cap':
            if V is not None and not default_cap:
                cap[0] = 2 + tape.draw(63, 'cap')
                V.set_type_cache_cap(cap[0])
                max_cap[0] = max(max_cap[0], cap[0])
                oplog.append('set_cap:%d' % cap[0])
        elif kind == 'nonclass':
            for obj in (42, None, 'x', (1, 2), [1], 3.5, object(), len):
                t = answers(TWIN, obj, NOARG)
                e = answers(ENG, obj, NOARG)
                if t != e:
                    viol('twin-disagree', 'classify:nonclass', 'engine and twin disagree on %r: %r' % (type(obj).__name__, [(a, b) for a, b in zip(t, e) if a != b][:3]))
            oplog.append('nonclass')
        elif kind == 'sortcmp':
            sortcmp(tape, viol, keys, probes, oplog)
        elif kind == 'onelevel':
            onelevel(tape, viol, keys, probes, oplog, custom_funcs)
        for ent in list(live):
            check_class(ent, site)
        if violations:
            break
    confirm_freed([])
    reg.unregister_all()
    if V is not None:
        V.set_type_cache_cap(4096)
    dig = hashlib.sha256(repr((oplog, sorted(k for k in keys if k.startswith(('sort|', 'onelevel|'))), [v['cls'] + v['site'] for v in violations])).encode()).hexdigest()
    # NB: raw addresses never enter the digest; reuse counters are reported, not compared per run
    out = {'digest': dig, 'violations': violations, 'keys': sorted(keys), 'steps': steps, 'probes': dict(probes),
           'faults_cfg': {'gc': 1, 'churn': 1}, 'faults_fired': {'gc': probes['step:gc'], 'churn': probes['step:churn']},
           'sample': {'history': oplog[:40], 'cap0': cap[0]} if job.get('i', 0) % 100 == 0 else None,
           'extra': {'steps': steps, 'classes_created': counter[0], 'default_cap_runs': int(default_cap)}}
    if violations or job.get('_min') or job.get('_stream_tape'):
        out['tape'] = tape.values
        out['ops'] = oplog
    return out


# -------------------------------------------------------------------------------------------------- sort twin
class Unorderable:
    def __init__(self, n):
        self.n = n

    def __hash__(self):
        return hash(('U', self.n))

    def __eq__(self, o):
        return isinstance(o, Unorderable) and o.n == self.n

    def __repr__(self):
        return 'U%d' % self.n


class Partial:
    """Orderable among themselves; comparing with n >= 100 raises TypeError (a sort that fails half-way)."""

    def __init__(self, n):
        self.n = n

    def __hash__(self):
        return hash(('P', self.n))

    def __eq__(self, o):
        return isinstance(o, Partial) and o.n == self.n

    def __lt__(self, o):
        if not isinstance(o, Partial) or self.n >= 100 or o.n >= 100:
            return NotImplemented
        return self.n < o.n

    def __repr__(self):
        return 'P%d' % self.n


class Outer1:
    class K:
        def __init__(self, n):
            self.n = n

        def __hash__(self):
            return hash(('O1K', self.n))

        def __eq__(self, o):
            return type(o) is type(self) and o.n == self.n

        def __lt__(self, o):
            if type(o) is not type(self):
                return NotImplemented
            return self.n < o.n

        def __repr__(self):
            return 'O1.K%d' % self.n


class Outer2:
    class K(Outer1.K):  # same __name__ and __module__ as Outer1.K, different __qualname__
        def __hash__(self):
            return hash(('O2K', self.n))

        def __repr__(self):
            return 'O2.K%d' % self.n


class BadLt:
    """__lt__ raises ValueError (not TypeError) against odd partners: both implementations must propagate it."""

    def __init__(self, n):
        self.n = n

    def __hash__(self):
        return hash(('BadLt', self.n))

    def __eq__(self, o):
        return isinstance(o, BadLt) and o.n == self.n

    def __lt__(self, o):
        if isinstance(o, BadLt) and (self.n + o.n) % 2:
            raise ValueError('odd pair')
        if not isinstance(o, BadLt):
            return NotImplemented
        return self.n < o.n

    def __repr__(self):
        return 'BadLt%d' % self.n


class DictSub(dict):
    pass


def sortcmp(tape, viol, keys, probes, oplog):
    pools = {
        'int': [3, 1, 2, 7, 5, 0, -4],
        'str': ['b', 'a', 'd', 'c', 'zz', ''],
        'tuple': [(1, 2), (0,), (1,), (), (0, 'a'), (2, 1)],
        'mixed_tuple': [(1, 'a'), ('a', 1), (1, 2)],
        'float': [1.5, -2.0, float('inf'), 0.25],
        'none': [None],
        'bool': [True, False],
        'unorderable': [Unorderable(i) for i in (3, 1, 2)],
        'partial': [Partial(i) for i in (5, 2, 100, 1, 7, 101, 3)],
        'key': [U.Key(i) for i in (4, 2, 9)],
        'bytes': [b'x', b'a'],
        'frozenset': [frozenset({1}), frozenset({1, 2}), frozenset()],
        'nested1': [Outer1.K(i) for i in (3, 1, 2)],
        'nested2': [Outer2.K(i) for i in (2, 3, 1)],
        'badlt': [BadLt(i) for i in (4, 2, 1, 6)],
        'complex': [2j, 1j],
    }
    names = sorted(pools)
    chosen = [names[tape.draw(len(names), 'pool')] for _ in range(1 + tape.draw(3, 'n-pools'))]
    cands = []
    for nm in chosen:
        cands.extend(pools[nm])
    cands = tape.shuffle(cands, 'keyorder')
    n = 1 + tape.draw(min(8, len(cands)), 'n-keys')
    ks = []
    for k in cands:
        if not any(k == x and type(k) is type(x) or (k == x) for x in ks):
            ks.append(k)
        if len(ks) >= n:
            break
    d = {k: i for i, k in enumerate(ks)}
    ins = list(d)
    U.HOOK = None
    try:
        twin = optree.utils.total_order_sorted(ins)
        twin_exc = None
    except Exception as e:  # noqa: BLE001
        twin, twin_exc = None, type(e)
    try:
        eng = optree.tree_structure(d).entries()
        eng_exc = None
    except Exception as e:  # noqa: BLE001
        eng, eng_exc = None, type(e)
    cls_key = '+'.join(sorted(set(chosen)))
    if twin_exc is not None or eng_exc is not None:
        probes['sort:raised'] += 1
        keys.add('sort|%s|raised' % cls_key)
        oplog.append('sortcmp:%s:raised' % cls_key)
        if twin_exc is not eng_exc:
            viol('twin-disagree', 'sort:exception', 'total_order_sorted %s but the engine %s for keys %r' % (
                'raised ' + twin_exc.__name__ if twin_exc else 'returned', 'raised ' + eng_exc.__name__ if eng_exc else 'returned', ins))
        return
    dd = optree.tree_structure(defaultdict(int, d)).entries()
    ds = optree.tree_structure(DictSub(d)).entries() if False else eng  # dict subclasses are leaves unless registered
    # a single-key and an empty dict go through the same ordering code
    for small in ({}, dict(list(d.items())[:1])):
        if optree.tree_structure(small).entries() != optree.utils.total_order_sorted(list(small)):
            viol('twin-disagree', 'sort:small', 'engine and twin disagree on a %d-key dict' % len(small))
    first_failed = False
    try:
        sorted(ins)
    except TypeError:
        first_failed = True
        probes['sort:first-failed'] += 1
        try:
            sorted(ins, key=lambda x: ('%s.%s' % (x.__class__.__module__, x.__class__.__qualname__), x))
        except TypeError:
            probes['sort:both-failed'] += 1
            if twin != ins:
                viol('twin-disagree', 'sort:fallback', 'total_order_sorted does not fall back to insertion order for %r: %r' % (ins, twin))
    keys.add('sort|%s|%s' % (cls_key, first_failed))
    oplog.append('sortcmp:%s' % cls_key)
    same_order = len(twin) == len(eng) and all(a is b for a, b in zip(twin, eng))
    if not same_order:
        viol('twin-disagree', 'sort:%s' % ('both-failed' if (first_failed and twin == ins) else 'first-failed' if first_failed else 'plain'),
             'engine dict key order %r differs from total_order_sorted %r (insertion order %r)' % (eng, twin, ins))
    if not (len(dd) == len(eng) and all(a is b for a, b in zip(dd, eng))):
        viol('twin-disagree', 'sort:defaultdict', 'dict and defaultdict key orders differ: %r vs %r' % (eng, dd))
    # the one-level Python handler must list the same order
    one = optree.tree_flatten_one_level(d)
    if not all(a is b for a, b in zip(one[2], eng)) or len(one[2]) != len(eng):
        viol('twin-disagree', 'sort:one-level', 'tree_flatten_one_level entries %r differ from the treespec entries %r' % (list(one[2]), eng))


# -------------------------------------------------------------------------------------------------- one-level twin
class SwapNT(collections.namedtuple('SwapNTBase', ['lo', 'hi'])):
    """namedtuple whose constructor is NOT the identity on its arguments (and not idempotent): rebuilding through the
    constructor and rebuilding through tuple.__new__ / _make give different objects, so the twin's unflatten function must
    take the same route as the engine."""
    __slots__ = ()
    calls = [0]

    def __new__(cls, lo, hi):
        cls.calls[0] += 1
        return super().__new__(cls, hi, lo)


class OneNT(collections.namedtuple('OneNTBase', ['v'])):
    __slots__ = ()

    def __new__(cls, v):
        return super().__new__(cls, (v,))


def onelevel(tape, viol, keys, probes, oplog, custom_funcs):
    ctx = gen.swarm_ctx(tape, custom_classes=(U.CA, U.CB))
    tree = gen.gen_tree(tape, 2 + tape.draw(12, 'budget'), ctx)
    special = tape.draw(13, 'ol-special')
    if special == 12:
        # a namedtuple class whose registration as a custom node was ATTEMPTED and refused (the engine's override warning was an
        # error at the time): engine and twin must both still see a plain namedtuple
        import warnings as _w
        cls = type('RefusedNT', (collections.namedtuple('RefusedNTBase', ['p', 'q']),), {'__slots__': ()})
        fr = U.Funcs(cls, 99, 0)
        with _w.catch_warnings():
            _w.simplefilter('error')
            try:
                optree.register_pytree_node(cls, fr.flatten, fr.unflatten, namespace=('ns', 'other')[tape.draw(2, 'ol-refused-ns')])
                refused = False
            except Exception:  # noqa: BLE001
                refused = True
        probes['one-level:refused-registration'] += int(refused)
        tree = cls(ctx.leaf(), [ctx.leaf()])
        if not refused:
            custom_funcs['refused-cleanup'] = cls
    if special in (10, 11):
        # a custom node whose flatten function returns an unusual third element (entries): empty, of the wrong length, not
        # iterable, falsy-but-well-formed, or with no truth value.  Engine and twin must agree on accept / reject, and on
        # the result when both accept.
        cls = (U.CA, U.CB)[special - 10]
        f = custom_funcs[cls]
        how = tape.choice(('entries_empty', 'entries_empty_list', 'entries_short', 'entries_len', 'entries_noniter', 'entries_nobool', 'entries_empty_ok',
                           'len1', 'len4', 'not_tuple', 'list3'), 'ol-malform')
        node = cls([ctx.leaf() for _ in range(tape.draw(3, 'ol-mal-n'))], aux=0)
        ns_m = 'ns' if cls is U.CA else ('', 'ns', 'other')[tape.draw(3, 'ol-mal-ns')]
        f.malform = how
        try:
            try:
                eng = ('ok', optree.tree_flatten(node, namespace=ns_m, is_leaf=lambda x: x is not node))
            except Exception as e:  # noqa: BLE001
                eng = ('exc', e)
            try:
                twin = ('ok', optree.tree_flatten_one_level(node, namespace=ns_m))
            except Exception as e:  # noqa: BLE001
                twin = ('exc', e)
        finally:
            f.malform = None
        probes['one-level:custom-entries:' + how] += 1
        keys.add('onelevel-entries|%s|%s|%s' % (how, eng[0], twin[0]))
        oplog.append('one-level custom entries %s: engine %s, twin %s' % (how, eng[0], twin[0]))
        if eng[0] != twin[0]:
            viol('twin-disagree', 'one-level:custom-entries', 'a custom flatten function returning %s: the engine %s, tree_flatten_one_level %s' % (
                how, 'accepts it' if eng[0] == 'ok' else 'raises %s' % type(eng[1]).__name__, 'accepts it' if twin[0] == 'ok' else 'raises %s' % type(twin[1]).__name__))
        elif eng[0] == 'ok':
            e_children, e_spec = eng[1]
            if len(e_children) != len(twin[1][0]) or not all(a is b for a, b in zip(e_children, twin[1][0])) or list(twin[1][2]) != e_spec.entries():
                viol('twin-disagree', 'one-level:custom-entries', 'a custom flatten function returning %s: children / entries differ (%r vs %r)' % (how, list(twin[1][2]), e_spec.entries()))
        return
    if special in (8, 9):
        # an OrderedDict whose order was changed AFTER construction: its order lives in its own linked list, not in the
        # underlying dict (move_to_end does not touch the latter)
        tree = OrderedDict([(k, ctx.leaf()) for k in (('b', 'a', 'c') if special == 8 else (3, 1, 2))])
        tree.move_to_end(next(iter(tree)), last=bool(tape.draw(2, 'ol-mte-last')))
        if tape.draw(2, 'ol-mte-twice'):
            tree.move_to_end(list(tree)[1], last=False)
        probes['one-level:moved-odict'] += 1
    elif special == 3:
        tree = SwapNT(ctx.leaf(), [ctx.leaf()])
    elif special == 4:
        tree = OneNT(tree)
    elif special == 5:
        tree = U.NT2(tree)
    elif special == 6:
        tree = U.make_structseq([tree] + [ctx.leaf() for _ in range(8)])
    elif special == 7:
        tree = U.NTM(tree, ctx.leaf())
    ns = ('', 'ns', 'other')[tape.draw(3, 'ol-ns')]
    nil = bool(tape.draw(2, 'ol-nil'))
    mode = tape.draw(3, 'ol-mode')

    def body():
        kw = {'namespace': ns, 'none_is_leaf': nil}
        leaves, spec = optree.tree_flatten(tree, **kw)
        top_children = optree.tree_flatten(tree, is_leaf=lambda x: x is not tree, **kw)[0]
        try:
            one = optree.tree_flatten_one_level(tree, **kw)
        except ValueError:
            one = None
        # the is_leaf predicate must be honoured the same way: a root declared a leaf cannot be flattened one level
        try:
            optree.tree_flatten_one_level(tree, is_leaf=lambda x: x is tree, **kw)
            viol('twin-disagree', 'one-level:is_leaf', 'tree_flatten_one_level flattened a %s although is_leaf says it is a leaf' % type(tree).__name__)
        except ValueError:
            if not optree.tree_structure(tree, is_leaf=lambda x: x is tree, **kw).is_leaf():
                viol('twin-disagree', 'one-level:is_leaf', 'engine does not treat the root as a leaf under is_leaf')
        try:
            with_pred = optree.tree_flatten_one_level(tree, is_leaf=lambda x: False, **kw)
            if one is None or list(with_pred[0]) != list(one[0]):
                viol('twin-disagree', 'one-level:is_leaf', 'an always-False is_leaf changes tree_flatten_one_level of a %s' % type(tree).__name__)
        except ValueError:
            if one is not None:
                viol('twin-disagree', 'one-level:is_leaf', 'an always-False is_leaf makes tree_flatten_one_level reject a %s' % type(tree).__name__)
        kind = spec.kind
        keys.add('onelevel|%s|%s|%s|%s' % (type(tree).__name__, ns, nil, mode))
        if one is None:
            if not spec.is_leaf() and not (spec.kind == optree.PyTreeKind.NONE and False):
                if spec.kind != optree.PyTreeKind.LEAF:
                    viol('twin-disagree', 'one-level:leaf', 'tree_flatten_one_level says leaf but the engine made a %s node of %s' % (kind, type(tree).__name__))
            return
        children, metadata, entries, unflatten = one[:4]
        if spec.is_leaf():
            viol('twin-disagree', 'one-level:leaf', 'engine says leaf for %s but tree_flatten_one_level flattened it' % type(tree).__name__)
            return
        if len(children) != spec.num_children or not all(a is b for a, b in zip(children, top_children)):
            viol('twin-disagree', 'one-level:children', 'one-level children differ from the engine\'s for %s (ns=%r, mode=%d)' % (type(tree).__name__, ns, mode))
        if list(entries) != spec.entries() and not all(a is b or a == b for a, b in zip(entries, spec.entries())):
            viol('twin-disagree', 'one-level:entries', 'one-level entries %r differ from treespec.entries() %r' % (list(entries), spec.entries()))
        if one.type is not spec.type or one.kind != spec.kind:
            viol('twin-disagree', 'one-level:type', 'one-level (type, kind) = (%s, %s) but treespec says (%s, %s)' % (one.type, one.kind, spec.type, spec.kind))
        back = unflatten(metadata, children)
        # the engine's rebuild of the same node from the same children (what the twin must agree with)
        spec_one = optree.tree_structure(tree, is_leaf=lambda x: x is not tree, **kw)
        try:
            eng_back = spec_one.unflatten(children)
            d0 = same(eng_back, back) if type(tree) not in (dict, defaultdict) else None
        except Exception as e:  # noqa: BLE001
            d0 = 'engine rebuild raised %s' % type(e).__name__
        if d0:
            viol('twin-disagree', 'one-level:unflatten-vs-engine', 'unflatten_func(metadata, children) of a %s differs from the engine\'s rebuild of the same children: %s' % (type(tree).__name__, d0))
        if isinstance(tree, (SwapNT, OneNT)):
            return  # their constructors are deliberately not round-trip safe; only twin-vs-engine is meaningful
        # the engine's counterpart for the same (metadata, children) input is a treespec built from that metadata, which
        # also yields sorted-key dicts; so the top-level key ORDER of plain dict / defaultdict is not compared here
        if type(tree) in (dict, defaultdict) and type(back) is type(tree):
            d = None
            if set(map(id, tree.values())) != set(map(id, back.values())) or len(tree) != len(back) or any(back[k] is not tree[k] for k in tree):
                d = 'rebuilt %s has different items' % type(tree).__name__
            if isinstance(tree, defaultdict) and tree.default_factory is not back.default_factory:
                d = 'default_factory differs'
        else:
            d = same(tree, back)
        if d:
            viol('twin-disagree', 'one-level:unflatten', 'unflatten_func(metadata, children) does not rebuild the node: %s' % d)
        acc = optree.tree_accessors(tree, is_leaf=lambda x: x is not tree, **kw)
        if acc and acc[0] and type(acc[0][0]) is not one.path_entry_type and one.path_entry_type is not optree.AutoEntry:
            viol('twin-disagree', 'one-level:entry-type', 'path entry type %s differs from the engine\'s %s' % (one.path_entry_type, type(acc[0][0])))

    probes['onelevel:%s' % ('insertion' if mode else 'sorted')] += 1
    oplog.append('onelevel:%s' % type(tree).__name__)
    if mode == 0:
        body()
    elif mode == 1:
        with optree.dict_insertion_ordered(True, namespace=ns if ns else GLOBAL):
            body()
    else:
        with optree.dict_insertion_ordered(True, namespace=GLOBAL):
            body()
