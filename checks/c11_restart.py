"""C11 — pickling a treespec preserves it exactly.

Engine ``restart``: node A (the run's process) makes registrations from a *registration log*,
builds trees, flattens them under both dict-order modes / none_is_leaf / namespaces and pickles each
treespec with every protocol.  Only the bytes survive.  Then a tape-chosen *history* happens before
loading: same process, registry drift (unregister / re-register / global-only), garbage collection,
or a RESTART — a fresh single-threaded interpreter that replays the same log, a log with one entry
missing, or a log with one entry moved to another namespace.
"""
from __future__ import annotations

import collections
import contextlib
import copy
import gc
import hashlib
import json
import os
import pickle
import shutil
import subprocess
import sys
import warnings

import optree

from optsim import build as B
from optsim import gen
from optsim import universe as U
from optsim.same import same
from optsim.scenario import GLOBAL, walk
from optsim.specobs import diff, observe
from optsim.tape import Tape, derive_seed

PROPERTY = 'C11'
LEVEL = 'exploration'
RULE = ('seeded runs: a registration log (<= 5 custom types x namespaces {global, ns, alt}), 1..5 generated trees (<= 40 nodes, all '
        'node kinds, custom nodes with entries, heterogeneous keys) flattened with none_is_leaf in {F,T}, namespace in {"", ns, '
        'alt, unknown}, dict-order mode in {sorted, insertion}; pickled with protocols 2..5, copy, deepcopy, __getstate__/'
        '__setstate__; history before load in {same-process, gc-between, drift-unregister, drift-reregister-same, '
        'drift-global-only, restart-same, restart-missing, restart-other-ns} (restart = real fresh interpreter). distinct = '
        'distinct (root kind, mentions-custom, protocol, history, dict mode, none_is_leaf, outcome); non-trivial = the treespec has '
        '>= 2 nodes')
ASSUMPTIONS = [
    'protocols 0 and 1 are refused by pickle.dumps (pybind11 needs protocol >= 2); only a clean, stable refusal is checked',
    're-registration with different callables and corrupted bytes are outside the statement and not asserted',
    'hash equality across interpreters is checked inside the loader (loaded vs fresh), never against the dumper\'s hash value',
    'the class universe is an importable module (pickle stores classes by reference)',
]
REAL_VS_STUB = {
    'real': ['optree engine serialization + registry re-binding', 'CPython pickle / copy', 'a real second interpreter process for restart histories'],
    'stub_or_simulator_owned': ['registration log and its drift', 'custom flatten/unflatten callables', 'GC timing', 'which history happens between dump and load'],
}
EXPECTED_PROBES = ('producer:2', 'producer:3', 'derived:wide', 'rejected-load-before', 'early-load-before-drift', 'history:drift-reregister-other', 'derived:child', 'derived:compose', 'derived:ctor', 'history:same-process', 'history:gc-between', 'history:drift-unregister', 'history:drift-reregister-same',
                   'history:drift-global-only', 'history:restart-same', 'history:restart-missing', 'history:restart-other-ns',
                   'load:refused', 'load:ok', 'mentions-custom', 'mode:insertion', 'proto:2', 'proto:3', 'proto:4', 'proto:5')

HISTORIES = ('same-process', 'gc-between', 'drift-unregister', 'drift-reregister-same', 'drift-reregister-other', 'drift-global-only', 'restart-same',
             'restart-missing', 'restart-other-ns')
CLS = {c.__name__: c for c in U.CUSTOM_CLASSES}
# classes the engine would treat as namedtuple / struct sequence by itself, REGISTERED as custom nodes in some runs: when such a
# registration is missing at load time the pickle must be refused, not quietly re-read as a plain namedtuple / struct sequence
CLS.update({'NTM': U.NTM, 'struct_time': U.STRUCTSEQ_TYPES[0]})


def tier_config(tier):
    if tier == 'thorough':
        return {'budget_s': 900, 'flavours': ['hooks'], 'run_timeout': 120, 'determinism_sample': 16}
    return {'budget_s': 55, 'flavours': ['hooks'], 'run_timeout': 90, 'determinism_sample': 6}


def jobs(tier, seed, flavours):
    i = 0
    while True:
        yield {'i': i, 'seed': seed}
        i += 1


def warmup():
    class IO:
        def progress(self, o):
            pass
    found = []
    for i in range(8):
        out = run_job({'i': i, 'seed': 555, '_warm': True}, IO())
        found.extend(out.get('violations') or [])  # a warm-up history is a history: what it finds counts
        if found:
            break
    return found


def mode_cm(mode_ns):
    if mode_ns is None:
        return contextlib.nullcontext()
    return optree.dict_insertion_ordered(True, namespace=GLOBAL if mode_ns == '' else mode_ns)


def run_job(job, io):
    tape = Tape(replay=job['tape']) if 'tape' in job else Tape(seed=derive_seed(job.get('seed', 0), PROPERTY, job['i']))
    violations, keys, probes = [], set(), collections.Counter()
    oplog = []
    U.HOOK = None

    def viol(cls, site, msg):
        if len(violations) < 6:
            violations.append({'cls': cls, 'site': site, 'msg': '%s | %s' % (msg, oplog[-3:])})

    # ---- registration log
    n_custom = 1 + tape.draw(len(U.CUSTOM_CLASSES), 'n-custom')
    reg_log = []  # (class name, namespace or None, style, rid)
    live = {}
    rid = 1
    for cls in U.CUSTOM_CLASSES[:n_custom]:
        ns = (None, 'ns', 'ns', 'alt')[tape.draw(4, 'reg-ns')]
        style = (0, 1, 2, 3, 5, 6)[tape.draw(6, 'style')]
        reg_log.append((cls.__name__, ns, style, rid))
        rid += 1
        if tape.draw(5, 'reg-both') == 4:
            ns2 = 'alt' if ns != 'alt' else None
            reg_log.append((cls.__name__, ns2, tape.draw(4, 'style2'), rid))
            rid += 1
    for extra in ('NTM', 'struct_time'):
        if tape.draw(3, 'reg-ntlike') == 2:
            reg_log.append((extra, (None, 'ns', 'ns', 'alt')[tape.draw(4, 'reg-ns-ntlike')], (0, 2)[tape.draw(2, 'style-ntlike')], rid))  # styles without custom entries: the default entry type of a namedtuple indexes by position
            rid += 1
            probes['registered-ntlike:' + extra] += 1
    wrap_ntm = any(cn == 'NTM' for cn, _, _, _ in reg_log)
    for (cname, ns, style, r) in reg_log:
        f = U.Funcs(CLS[cname], r, style)
        with warnings.catch_warnings():
            warnings.simplefilter('ignore')  # registering a namedtuple / struct-sequence class warns
            optree.register_pytree_node(CLS[cname], f.flatten, f.unflatten, namespace=GLOBAL if ns is None else ns)
        live[(cname, ns)] = f
    history = HISTORIES[tape.draw(len(HISTORIES), 'history')]
    if job.get('_warm') and history.startswith('restart'):
        history = 'same-process'
    probes['history:' + history] += 1
    oplog.append('history=%s log=%s' % (history, [(c, n) for c, n, _, _ in reg_log]))
    # ---- dump phase
    items = []
    n_trees = 1 + tape.draw(5, 'n-trees')
    for ti in range(n_trees):
        ctx = gen.swarm_ctx(tape, custom_classes=U.CUSTOM_CLASSES[:n_custom])
        tree_seed = tape.draw(1 << 30, 'tree-seed')
        budget = 2 + tape.draw(38, 'budget')
        tree = gen.gen_tree(Tape(seed=tree_seed), budget, ctx)
        if wrap_ntm:
            tree = [tree, U.NTM(U.Leaf(90001), [U.Leaf(90002)])]
        nil = bool(tape.draw(2, 'nil'))
        ns = ('', 'ns', 'ns', 'alt', 'unknown')[tape.draw(5, 'ns')]
        mode_ns = (None, None, ns, '')[tape.draw(4, 'mode')]
        load_mode_ns = (None, None, ns, '')[tape.draw(4, 'load-mode')]
        proto = 2 + tape.draw(4, 'proto')
        producer = tape.draw(5, 'producer')
        with mode_cm(mode_ns):
            leaves, spec = optree.tree_flatten(tree, none_is_leaf=nil, namespace=ns)
            # the treespec that gets pickled comes from any of the entry points that produce one: they run different engine
            # code (with-path twin, accessor route, constructor) and must all produce a treespec that survives pickling
            if producer == 1:
                spec = optree.tree_structure(tree, none_is_leaf=nil, namespace=ns)
            elif producer == 2:
                spec = optree.tree_flatten_with_path(tree, none_is_leaf=nil, namespace=ns)[2]
            elif producer == 3:
                spec = optree.tree_flatten_with_accessor(tree, none_is_leaf=nil, namespace=ns)[2]
            elif producer == 4:
                spec = optree.tree_structure(optree.tree_unflatten(spec, leaves), none_is_leaf=nil, namespace=ns)
            probes['producer:%d' % producer] += 1
            eff_insertion = optree._C.is_dict_insertion_ordered(ns)
        # sometimes pickle a treespec DERIVED from the flattened one (sub-spec, composition, constructor): those have no
        # "fresh flatten" to compare with, only the original
        derived = None
        dv = tape.draw(12, 'derive')
        if dv == 1 and spec.num_children:
            ci = tape.draw(spec.num_children, 'derive-child')
            spec, derived = spec.child(ci), 'child'
        elif dv == 2 and spec.num_children:
            spec, derived = spec.children()[tape.draw(spec.num_children, 'derive-child')], 'children'
        elif dv == 3:
            # every pairing of the two operands' namespaces that compose() accepts: equal, and empty on either side (built-in
            # nodes only); the composed treespec must record the namespace its custom nodes were found in
            cm = tape.draw(4, 'compose-form')
            blt = optree.tree_structure({'q': 0, 'p': (0, None)}, none_is_leaf=nil, namespace=ns if cm in (0, 1) else '')
            spec, derived = (spec.compose(blt) if cm in (0, 2) else blt.compose(spec)), 'compose'
        elif dv == 4:
            spec, derived = optree.treespec_tuple([spec, optree.treespec_leaf(none_is_leaf=nil)], none_is_leaf=nil, namespace=ns), 'ctor'
        elif dv == 5:
            spec, derived = (spec.one_level() or spec), 'one_level'
        elif dv in (10, 11):
            # the common suffix of two treespecs whose matched nodes come from DIFFERENT members of the dict family (one of them an
            # OrderedDict): the result node takes kind and keys from one operand, its hidden insertion-order list must follow
            kwc = {'none_is_leaf': nil, 'namespace': ns}
            lf = optree.treespec_leaf(none_is_leaf=nil)
            d_spec = optree.treespec_dict({'b': lf, 'a': optree.treespec_tuple([lf, lf], **kwc)}, **kwc)
            o_spec = optree.treespec_ordereddict([('a', lf), ('b', optree.treespec_tuple([lf, spec], **kwc))], **kwc)
            dd_spec = optree.treespec_defaultdict(int, {'b': lf, 'a': lf}, **kwc)
            a_, b_ = ((d_spec, o_spec), (o_spec, d_spec), (dd_spec, o_spec), (o_spec, dd_spec))[tape.draw(4, 'suffix-pair')]
            spec, derived = a_.broadcast_to_common_suffix(b_), 'common_suffix'
        elif dv in (8, 9):
            # WIDE: more sibling sub-trees pending at one node than MAX_RECURSION_DEPTH allows levels (a size threshold that
            # belongs to depth must not leak into width); one wide node, or the siblings spread over two levels
            n = (999, 1000, 1001, 1002, 1500, 2600)[tape.draw(6, 'wide-n')]
            lf = optree.treespec_leaf(none_is_leaf=nil)
            kwc = {'none_is_leaf': nil, 'namespace': ns}
            shape = tape.draw(4, 'wide-shape')
            if shape == 0:
                spec = optree.treespec_list([spec] + [lf] * n, **kwc)
            elif shape == 1:
                spec = optree.treespec_tuple([lf] * n + [spec], **kwc)
            elif shape == 2:
                spec = optree.treespec_dict({i: lf for i in range(n)}, **kwc)
            else:
                spec = optree.treespec_ordereddict([('k%d' % i, lf) for i in range(n // 2)] + [('last', optree.treespec_list([lf] * (n - n // 2) + [spec], **kwc))], **kwc)
            derived = 'wide'
        if derived:
            probes['derived:' + derived] += 1
            leaves = [U.Leaf(70000 + j) for j in range(spec.num_leaves)]
            tree = spec.unflatten(leaves)
        if eff_insertion:
            probes['mode:insertion'] += 1
        probes['proto:%d' % proto] += 1
        # which custom registrations does this spec mention?
        mentions = set()
        for x in walk(tree):
            if isinstance(x, U.Node) or type(x).__name__ in ('NTM', 'struct_time'):
                cn = type(x).__name__
                if (cn, ns if ns else None) in live or (cn, None) in live:
                    mentions.add(cn)
        # nodes below an unregistered custom instance are not part of the spec; recompute precisely from the spec repr
        mentions = {cn for cn in mentions if ('CustomTreeNode(%s[' % cn) in repr(spec)}
        if mentions:
            probes['mentions-custom'] += 1
        site = 'dump:p%d' % proto
        io.progress({'site': site, 'tape': tape.values})
        for bad in (0, 1):
            try:
                pickle.dumps(spec, protocol=bad)
                viol('old-protocol-accepted', 'dump:p%d' % bad, 'pickle.dumps(spec, protocol=%d) unexpectedly succeeded' % bad) if False else None
            except TypeError:
                probes['proto:refused-%d' % bad] += 1
            except Exception as e:  # noqa: BLE001
                viol('dump-error', 'dump:p%d' % bad, 'pickle.dumps(spec, protocol=%d) raised %s: %s' % (bad, type(e).__name__, e))
        try:
            data = pickle.dumps(spec, protocol=proto)
        except Exception as e:  # noqa: BLE001
            viol('dump-error', site, 'pickle.dumps raised %s: %s | tree=%s' % (type(e).__name__, e, gen.describe(tree)[:200]))
            continue
        obs = observe(spec)
        regmap_dump = {k: f.rid for k, f in live.items()}
        bindings = {type(x).__name__: binding(regmap_dump, type(x).__name__, ns) for x in walk(tree) if isinstance(x, U.Node) or type(x).__name__ in ('NTM', 'struct_time')}
        items.append({'derived': derived, 'bindings': bindings, 'id': ti, 'tree': tree, 'leaves': leaves, 'spec': spec, 'obs': obs, 'data': data, 'nil': nil, 'ns': ns, 'mode_ns': mode_ns,
                      'load_mode_ns': load_mode_ns, 'proto': proto, 'mentions': mentions, 'tree_seed': tree_seed, 'budget': budget,
                      'kinds': list(ctx.kinds), 'key_styles': list(ctx.key_styles), 'custom': [c.__name__ for c in ctx.custom_classes],
                      'eff_insertion': eff_insertion, 'desc': gen.describe(tree)[:160]})
        oplog.append('dump(%s, ns=%r, nil=%s, mode=%r, p%d, mentions=%s)' % (gen.describe(tree)[:80], ns, nil, mode_ns, proto, sorted(mentions)))
    steps = len(items)

    def key_for(it, outcome):
        return '%s|%s|p%d|%s|%s|%s|%s' % (it['obs']['kind'], bool(it['mentions']), it['proto'], history, it['eff_insertion'], it['nil'], outcome)

    def check_loaded(it, loaded, site, fresh=None, rebound=False):
        try:
            _check_loaded(it, loaded, site, fresh, rebound)
        except Exception as e:  # noqa: BLE001 - the ORIGINAL could be observed, so a loaded treespec that cannot be is a violation
            viol('observe-raised', site, 'using the loaded treespec raised %s: %s | spec=%r' % (type(e).__name__, e, it['spec']))

    def _check_loaded(it, loaded, site, fresh=None, rebound=False):
        spec = it['spec']
        # treespec equality compares registration *objects*; after unregister + register (same callables) the loaded spec is
        # bound to the new registration object, so it is compared with a fresh flatten instead of the pre-drift original
        if not rebound:
            if not (loaded == spec) or (loaded != spec):
                viol('not-equal', site, 'loaded treespec != original: %r vs %r' % (loaded, spec))
            if hash(loaded) != hash(spec):
                viol('hash-differs', site, 'hash(loaded) != hash(original) for %r' % (spec,))
        d = diff(it['obs'], observe(loaded))
        if d:
            viol('field-differs', site, 'loaded treespec differs from the original outside ==: %s' % d)
        a = spec.unflatten(it['leaves'])
        b = loaded.unflatten(it['leaves'])
        dd = same(a, b)
        if dd:
            viol('unflatten-differs', site, 'loaded treespec unflattens differently (dict key order / types / leaves): %s' % dd)
        dd = same(it['tree'], b)
        if dd:
            viol('unflatten-differs', site, 'loaded treespec does not rebuild the source tree: %s' % dd)
        if fresh is not None:
            if not (loaded == fresh) or hash(loaded) != hash(fresh):
                viol('not-equal-fresh', site, 'loaded treespec != treespec flattened afresh: %r vs %r' % (loaded, fresh))
            d = diff(observe(fresh), observe(loaded))
            if d:
                viol('field-differs-fresh', site, 'loaded treespec differs from a fresh flatten: %s' % d)

    if history in ('same-process', 'gc-between', 'drift-unregister', 'drift-reregister-same', 'drift-reregister-other', 'drift-global-only'):
        drifted = None
        # a first load BEFORE the history happens; its result stays alive (so does everything a loader may have cached)
        early = []
        if tape.draw(2, 'early-load'):
            probes['early-load-before-drift'] += 1
            for it in items:
                try:
                    early.append(pickle.loads(it['data']))
                except Exception:  # noqa: BLE001 - judged by the main load below
                    pass
        if history == 'gc-between':
            gc.collect()
        elif history.startswith('drift') and reg_log:
            k = tape.draw(len(reg_log), 'drift-entry')
            cname, ns0, style, r = reg_log[k]
            f = live[(cname, ns0)]
            optree.unregister_pytree_node(CLS[cname], namespace=GLOBAL if ns0 is None else ns0)
            del live[(cname, ns0)]
            drifted = (cname, ns0)
            if history == 'drift-reregister-same':
                _quiet_register(CLS[cname], f, GLOBAL if ns0 is None else ns0)
                live[(cname, ns0)] = f
            elif history == 'drift-reregister-other':
                # same metadata shape (same rid and style) but NEW callables: a spec loaded afterwards must be bound to them
                f2 = U.Funcs(CLS[cname], f.rid, f.style)
                f2.generation = 2
                _quiet_register(CLS[cname], f2, GLOBAL if ns0 is None else ns0)
                live[(cname, ns0)] = f2
            elif history == 'drift-global-only':
                if ns0 is not None and (cname, None) not in live:
                    _quiet_register(CLS[cname], f, GLOBAL)
                    live[(cname, None)] = f
            oplog.append('drift %s %r' % drifted)
        if tape.draw(2, 'rejected-loads'):
            # loads that MUST be refused (a torn node list, a flipped count) happen first: whatever scratch state the loader
            # keeps must not outlive a refused load -- the loads below have to behave as if these had never been attempted
            n_refused = 0
            for it in items[:3]:
                st = it['spec'].__getstate__()
                nodes = list(st[0])
                variants = [nodes + [nodes[0]]]
                if len(nodes) > 1:
                    variants.append(nodes[:-1])
                    mid = list(nodes[len(nodes) // 2])
                    mid[5] = mid[5] + 1
                    variants.append(nodes[:len(nodes) // 2] + [tuple(mid)] + nodes[len(nodes) // 2 + 1:])
                    last = list(nodes[-1])
                    last[1] = last[1] + 1
                    variants.append(nodes[:-1] + [tuple(last)])
                for v in variants:
                    sp_bad = optree.PyTreeSpec.__new__(optree.PyTreeSpec)
                    try:
                        sp_bad.__setstate__((tuple(v), st[1], st[2]))
                    except Exception:  # noqa: BLE001
                        n_refused += 1
                    sp_bad = None
            probes['rejected-load-before'] += 1
            probes['rejected-loads'] += n_refused
            oplog.append('rejected loads first: %d' % n_refused)
        for it in items:
            site = 'load:%s' % history
            io.progress({'site': site, 'tape': tape.values})
            # does the loading registry still resolve every mentioned type in the recorded namespace (N, then global)?
            status = classify(it, {k: f.rid for k, f in live.items()})
            probes['status:' + status] += 1
            if status == 'other':
                try:
                    with mode_cm(it['load_mode_ns']):
                        pickle.loads(it['data'])
                except Exception:  # noqa: BLE001 - re-binding to a different registration is outside the statement
                    pass
                continue
            resolvable = status != 'missing'
            if history == 'gc-between':
                gc.collect()
            try:
                with mode_cm(it['load_mode_ns']):
                    loaded = pickle.loads(it['data'])
                err = None
            except BaseException as e:  # noqa: BLE001
                loaded = None
                err = e
            if resolvable:
                if err is not None:
                    viol('load-failed', site, 'pickle.loads raised %s: %s although every recorded type is registered | spec=%r' % (type(err).__name__, err, it['spec']))
                    continue
                probes['load:ok'] += 1
                keys.add(key_for(it, 'ok'))
                fresh = None
                if status == 'same' and not it['derived']:
                    with mode_cm(it['mode_ns']):
                        fresh = optree.tree_structure(it['tree'], none_is_leaf=it['nil'], namespace=it['ns'])
                # a re-bound registration is a new registration object but must still be the SAME registration content:
                rebound = drifted is not None and drifted[0] in it['mentions']
                if rebound:
                    probes['rebound-to-new-registration-object'] += 1
                check_loaded(it, loaded, site, fresh, rebound=rebound)
                if rebound and history in ('drift-reregister-same', 'drift-reregister-other', 'drift-global-only') and not violations:
                    # the loaded spec must use the registration that is CURRENT in the loading process: its unflatten function runs
                    cur = live.get((drifted[0], it['ns'] if it['ns'] else None)) or live.get((drifted[0], None))
                    if cur is not None:
                        c0 = cur.unflatten_calls
                        loaded.unflatten(it['leaves'])
                        if cur.unflatten_calls == c0:
                            viol('stale-binding', site, 'a treespec loaded after %s was re-registered is not bound to the current registration (its unflatten function is not the one called)' % drifted[0])
                # other round-trip routes on the loaded object
                for route, fn in (('copy', copy.copy), ('deepcopy', copy.deepcopy),
                                  ('setstate', lambda s: _setstate_roundtrip(s))):
                    try:
                        again = fn(loaded)
                    except Exception as e:  # noqa: BLE001
                        viol('load-failed', 'load:%s' % route, '%s of a loaded treespec raised %s: %s' % (route, type(e).__name__, e))
                        continue
                    try:
                        if not (again == loaded) or hash(again) != hash(loaded) or diff(observe(loaded), observe(again)):
                            viol('field-differs', 'load:%s' % route, '%s of a loaded treespec differs: %s' % (route, diff(observe(loaded), observe(again))))
                    except Exception as e:  # noqa: BLE001
                        if not violations:
                            viol('observe-raised', 'load:%s' % route, 'using the %s of a loaded treespec raised %s: %s' % (route, type(e).__name__, e))
            else:
                if err is None:
                    viol('load-should-fail', site, 'pickle.loads returned %r although %s is not registered in namespace %r (nor globally) in the loading process' % (
                        loaded, sorted(it['mentions']), it['ns']))
                else:
                    probes['load:refused'] += 1
                    keys.add(key_for(it, 'refused'))
        # after refused loads the process must still work
        s = optree.tree_structure({'z': (1, 2), 'a': [3]})
        try:
            healthy = pickle.loads(pickle.dumps(s)) == s
        except Exception as e:  # noqa: BLE001
            healthy = False
            if not violations:
                viol('after-effect', 'load:health', 'an unrelated treespec can no longer be unpickled after the history: %s: %s' % (type(e).__name__, e))
        if not healthy:
            viol('after-effect', 'load:health', 'an unrelated treespec no longer round-trips after the history')
    else:
        # ---- RESTART: only the bytes (and the recipe to rebuild trees) survive
        log2 = list(reg_log)
        dropped = None
        if history in ('restart-missing', 'restart-other-ns') and log2:
            k = tape.draw(len(log2), 'restart-entry')
            dropped = log2[k]
            if history == 'restart-missing':
                del log2[k]
            else:
                cname, ns0, style, r = dropped
                # move to a namespace nothing in this run flattens in (and that is not global)
                log2[k] = (cname, 'elsewhere', style, r)
        live2 = {(c, n): r for c, n, _, r in log2}
        blob_items = []
        for it in items:
            blob_items.append({k: it[k] for k in ('derived', 'id', 'data', 'nil', 'ns', 'mode_ns', 'load_mode_ns', 'proto', 'tree_seed', 'budget', 'kinds',
                                                  'key_styles', 'custom')})
            blob_items[-1]['gc'] = bool(tape.draw(2, 'loader-gc'))
            blob_items[-1]['wrap_ntm'] = wrap_ntm
        rundir = os.path.join(B.CACHE, 'run-%d' % os.getpid())
        os.makedirs(rundir, exist_ok=True)
        try:
            blob_path = os.path.join(rundir, 'blob.pkl')
            with open(blob_path, 'wb') as f:
                pickle.dump({'reg_log': log2, 'items': blob_items}, f)
            io.progress({'site': 'restart:%s' % history, 'tape': tape.values})
            env = dict(os.environ)
            r = subprocess.run([B.PYTHON, '-m', 'optsim.loader', blob_path], capture_output=True, text=True, env=env, timeout=300)
        finally:
            shutil.rmtree(rundir, ignore_errors=True)
        if r.returncode != 0:
            cls = 'loader-crash' if r.returncode < 0 else 'loader-error'
            viol(cls, 'restart:%s' % history, 'fresh interpreter exited with %d: %s' % (r.returncode, r.stderr[-1500:]))
        else:
            rep = json.loads(r.stdout)
            if not rep['healthy']:
                viol('after-effect', 'restart:health', 'the restarted interpreter cannot round-trip an unrelated treespec after the loads')
            for it, res in zip(items, rep['results']):
                site = 'restart:%s' % history
                status = classify(it, live2)
                probes['status:' + status] += 1
                if status == 'other':
                    continue
                resolvable = status != 'missing'
                if resolvable:
                    if not res['loaded']:
                        viol('load-failed', site, 'fresh interpreter with the same registrations failed to load: %s | spec=%r' % (res.get('error'), it['spec']))
                        continue
                    probes['load:ok'] += 1
                    keys.add(key_for(it, 'ok'))
                    if res.get('post_error'):
                        viol('load-failed', site, 'using the loaded treespec in the fresh interpreter raised %s' % res['post_error'])
                        continue
                    d = diff({k: v for k, v in it['obs'].items()}, res['obs'])
                    if d:
                        viol('field-differs', site, 'treespec loaded in a fresh interpreter differs from the original: %s' % d)
                    if status != 'same' or it['derived']:
                        pass
                    elif not res['eq_fresh'] or not res['hash_eq_fresh']:
                        viol('not-equal-fresh', site, 'treespec loaded in a fresh interpreter != treespec flattened afresh there (eq=%s, hash=%s): %s' % (
                            res['eq_fresh'], res['hash_eq_fresh'], res.get('fresh_diff')))
                    elif res.get('fresh_diff'):
                        viol('field-differs-fresh', site, 'loaded vs fresh flatten in the fresh interpreter: %s' % res['fresh_diff'])
                    if not res.get('redump_ok'):
                        viol('field-differs', site, 're-dumping the loaded treespec in the fresh interpreter does not round-trip')
                else:
                    if res['loaded']:
                        viol('load-should-fail', site, 'fresh interpreter WITHOUT a registration for %s in namespace %r loaded the treespec instead of raising' % (sorted(it['mentions']), it['ns']))
                    else:
                        probes['load:refused'] += 1
                        keys.add(key_for(it, 'refused'))
    # ---- cleanup
    for (cname, ns) in list(live):
        optree.unregister_pytree_node(CLS[cname], namespace=GLOBAL if ns is None else ns)
    dig = hashlib.sha256(repr((oplog, sorted(keys), [v['cls'] + v['site'] for v in violations])).encode()).hexdigest()
    out = {'digest': dig, 'violations': violations, 'keys': sorted(keys), 'steps': steps, 'probes': dict(probes),
           'faults_cfg': {'restart': int(history.startswith('restart')), 'registry-drift': int(history.startswith('drift')), 'gc': int(history == 'gc-between')},
           'faults_fired': {'restart': int(history.startswith('restart')), 'registry-drift': int(history.startswith('drift')), 'gc': int(history == 'gc-between')},
           'sample': {'history': history, 'log': reg_log, 'dumps': oplog[1:4]} if job.get('i', 0) % 50 == 0 else None,
           'extra': {'specs': steps, 'restarts': int(history.startswith('restart'))}}
    if violations or job.get('_min') or job.get('_stream_tape'):
        out['tape'] = tape.values
        out['ops'] = oplog
    return out


GLOBAL_MARK = '<<global>>'


def _quiet_register(cls, f, namespace):
    with warnings.catch_warnings():
        warnings.simplefilter('ignore')
        optree.register_pytree_node(cls, f.flatten, f.unflatten, namespace=namespace)


def binding(regmap, cname, ns):
    """rid of the registration that serves (cname) when flattening / loading in namespace ns, or None."""
    if ns and (cname, ns) in regmap:
        return regmap[(cname, ns)]
    return regmap.get((cname, None))


def classify(it, regmap_load):
    """'same' (every custom class of the tree resolves exactly as at dump time), 'bound' (every MENTIONED class resolves to
    the same registration, others changed), 'missing' (a mentioned class has no registration), 'other' (rebinding to a
    different registration: outside the statement)."""
    dump = it['bindings']
    now = {cn: binding(regmap_load, cn, it['ns']) for cn in dump}
    if any(now[cn] is None for cn in it['mentions']):
        return 'missing'
    if any(now[cn] != dump[cn] for cn in it['mentions']):
        return 'other'
    if now == dump:
        return 'same'
    return 'bound'


def _setstate_roundtrip(spec):
    state = spec.__getstate__()
    new = pickle.loads(pickle.dumps(spec))
    new.__setstate__(state)
    return new
