"""C16 — no input can make the extension touch invalid memory or overflow the stack.

Engine ``reentry``: same enumeration skeleton as C15, but the fault at callback event e_k is
*re-entrant interference*: the callback mutates a container that is being (or about to be)
traversed, re-enters optree on the same objects, or forces a collection.  Oracle: the run's
process survives (plain build: no fatal signal; ASan+UBSan build: no report) and the call ends in a
Python exception or a self-consistent result.  Two deterministic sub-sweeps: nesting depth around
MAX_RECURSION_DEPTH for every node kind, and argument-type confusion over every entry point.
"""
from __future__ import annotations

import collections
import copy
import os
import gc
import hashlib
import pickle
import sys
from collections import OrderedDict, defaultdict, deque

import optree
from optree import _C

from optsim import gen
from optsim import universe as U
from optsim.same import same
from optsim.scenario import GLOBAL, Registry, clone, py_children, walk
from optsim.tape import Tape, derive_seed

PROPERTY = 'C16'
LEVEL = 'fault_enumeration'
RULE = ('reentry jobs: one (traversal, tree) pair per seed; for every callback index k=1..K and every interference in '
        '{delete-front, delete-back, clear, append, replace-child} x target containers {the last three containers the '
        'engine showed to the predicate, the children list a custom flatten returned, one tape-chosen container} plus '
        're-entry {next() on the same iterator, flatten same tree, unflatten/inspect same treespec, register/unregister} '
        'and gc, executed on a fresh clone of the tree; depth jobs: every node kind x depth L-1..L+2 x 3 traversals + '
        'self-reference; confusion jobs: every _C entry point / PyTreeSpec method x seeded wrong-typed argument tuples. '
        'distinct = distinct (job kind, operation, callback site, interference, container kind, outcome class)')
ASSUMPTIONS = [
    'memory-safety oracle = process survival on the plain build and AddressSanitizer+UBSan silence on the asan build '
    '(PYTHONMALLOC=malloc so list/dict storage is individually red-zoned; -D_GLIBCXX_SANITIZE_VECTOR so that the unused capacity of every std::vector of the engine is poisoned)',
    'an InternalError/SystemError raised after a container was mutated mid-traversal counts as "a Python exception" '
    '(allowed by the statement); it is counted in a probe, not reported',
    'Python recursion limit raised to 20000 in depth jobs so that only optree\'s own MAX_RECURSION_DEPTH is measured',
    'GIL build only',
]
REAL_VS_STUB = {
    'real': ['optree C++ engine (plain-semantics hooks build and ASan+UBSan build of the working tree)', 'optree Python layer',
             'CPython containers and allocator (malloc under ASan)'],
    'stub_or_simulator_owned': ['all user callbacks', 'which container is mutated how at which callback', 'GC timing'],
}
EXPECTED_PROBES = ('field-liar-sweep', 'state:legacy-layout', 'state:field', 'state:bytes-flip', 'state:drop-node', 'state-load:loaded', 'state-load:rejected', 'liar-sweep', 'mismatch-sweep', 'mut:rotate', 'index-sweep', 'leafcount-sweep', 'mut:delete_front', 'mut:delete_back', 'mut:clear', 'mut:append', 'mut:replace', 're:iter_next',
                   're:flatten', 're:unflatten', 're:register', 're:gc', 're:dictmode', 'outcome:exception', 'outcome:consistent')

TRAVERSALS = ('flatten', 'flatten_with_path', 'iter', 'flatten_up_to', 'map', 'map_with_path', 'broadcast_prefix',
              'broadcast_common', 'prefix_errors', 'from_collection', 'leaves', 'structure', 'is_prefix_after', 'unflatten',
              'walk', 'all_leaves', 'transpose_map', 'one_level', 'unflatten_list', 'unflatten_list', 'walk_list', 'spec_ops', 'spec_ops')
MUTATIONS = ('delete_front', 'delete_back', 'clear', 'append', 'replace', 'rotate')
REENTRIES = ('iter_next', 'flatten', 'unflatten', 'register', 'gc', 'dictmode')


def tier_config(tier):
    if tier == 'thorough':
        return {'budget_s': 900, 'flavours': ['asan', 'hooks'], 'run_timeout': 300, 'determinism_sample': 16}
    return {'budget_s': 60, 'flavours': ['hooks', 'asan'], 'run_timeout': 120, 'determinism_sample': 6}


def jobs(tier, seed, flavours):
    only = os.environ.get('VERIF_C16_ONLY')  # development aid: restrict to one job family (not used by registered commands)
    if only:
        i = 0
        while True:
            for fl in flavours:
                yield {'kind': only, 'i': i, 'seed': seed, 'flavour': fl}
            i += 1
    # deterministic sub-sweeps first (both flavours), then seeded reentry / confusion jobs forever
    for fl in flavours:
        for kind in DEPTH_KINDS:
            yield {'kind': 'depth', 'node': kind, 'flavour': fl, 'i': -1000 + DEPTH_KINDS.index(kind)}
    i = 0
    while True:
        for fl in flavours:
            yield {'kind': 'reentry', 'i': i, 'seed': seed, 'flavour': fl}
            if i % 3 == 0:
                yield {'kind': 'confusion', 'i': i, 'seed': seed, 'flavour': fl}
            if i % 3 == 1:
                yield {'kind': 'state', 'i': i, 'seed': seed, 'flavour': fl}
        i += 1


def warmup():
    t = Tape(seed=3)
    for _ in range(4):
        s = RScn(t)
        for name in TRAVERSALS:
            try:
                s.run(name)
            except Exception:  # noqa: BLE001
                pass
        s.close()
    optree.tree_flatten(U.make_structseq(range(9)))


# --------------------------------------------------------------------------------------------------
class RScn:
    """Scenario for re-entrant interference: the tree is re-cloned before every execution."""

    def __init__(self, t):
        self.t = t
        self.reg = Registry()
        self.ns = 'ns'
        self.none_is_leaf = bool(t.draw(2, 'nil'))
        n_custom = 1 + t.draw(3, 'n-custom')
        for cls in U.CUSTOM_CLASSES[:n_custom]:
            self.reg.register(cls, self.ns, style=t.choice((0, 0, 1, 2, 3), 'style'), path_entry_type=t.choice((None, None, U.HookEntry), 'entry-type'))
        ctx = gen.swarm_ctx(t, custom_classes=U.CUSTOM_CLASSES[:n_custom])
        self.ctx = ctx
        self.pristine = gen.gen_tree(t, 3 + t.draw(20, 'budget'), ctx)
        if py_children(self.pristine) is None:
            self.pristine = [self.pristine, {'a': ctx.leaf(), 'b': [ctx.leaf(), ctx.leaf()]}]
        self.kw = {'none_is_leaf': self.none_is_leaf, 'namespace': self.ns}
        self.recent = []
        self.it = None
        self.reset()

    def reset(self):
        self.tree = clone(self.pristine)
        self.tree2 = clone(self.pristine)
        self.recent = []
        self.it = None
        self.leaves_list = None
        self.custom_children = []
        for _, _, f in self.reg.live:
            f.keep = self.custom_children

    def pred(self, x):
        if py_children(x) is not None:
            self.recent.append(x)
        U._h('is_leaf')
        return False

    def fmap(self, *xs):
        U._h('map_fn')
        return xs[0]

    def run(self, name):
        kw = self.kw
        tree, tree2 = self.tree, self.tree2
        if name == 'flatten':
            return check_flat(optree.tree_flatten(tree, is_leaf=self.pred, **kw))
        if name == 'flatten_with_path':
            p, l, s = optree.tree_flatten_with_path(tree, is_leaf=self.pred, **kw)
            assert_consistent(len(p) == len(l), 'paths/leaves length')
            return check_flat((l, s))
        if name == 'iter':
            self.it = optree.tree_iter(tree, is_leaf=self.pred, **kw)
            return list(self.it)
        if name == 'leaves':
            return optree.tree_leaves(tree, is_leaf=self.pred, **kw)
        if name == 'structure':
            return optree.tree_structure(tree, is_leaf=self.pred, **kw)
        if name == 'flatten_up_to':
            spec = optree.tree_structure(self.pristine, **kw)
            return spec.flatten_up_to(tree)
        if name == 'map':
            return optree.tree_map(self.fmap, tree, tree2, is_leaf=self.pred, **kw)
        if name == 'map_with_path':
            return optree.tree_map_with_path(lambda p, *xs: self.fmap(*xs), tree, tree2, is_leaf=self.pred, **kw)
        if name == 'broadcast_prefix':
            return optree.tree_broadcast_prefix(tree, tree2, is_leaf=self.pred, **kw)
        if name == 'broadcast_common':
            return optree.tree_broadcast_common(tree, tree2, is_leaf=self.pred, **kw)
        if name == 'prefix_errors':
            return len(optree.prefix_errors(tree, tree2, is_leaf=self.pred, **kw))
        if name == 'from_collection':
            spec_tree = optree.tree_map(lambda x: optree.treespec_leaf(**kw), tree, **kw)
            self.tree = spec_tree  # the collection itself is what gets mutated
            self.recent = [x for x in walk(spec_tree) if py_children(x) is not None][:3]
            return optree.treespec_from_collection(spec_tree, **kw)
        if name == 'is_prefix_after':
            s1 = optree.tree_structure(tree, is_leaf=self.pred, **kw)
            s2 = optree.tree_structure(tree2, **kw)
            return (s1.is_prefix(s2), s1 == s2, hash(s1), repr(s1), s1.paths(), s1.accessors(), s1.entries())
        if name == 'unflatten':
            leaves, spec = optree.tree_flatten(self.pristine, **kw)
            src = list(leaves)
            scn = self

            class It:
                def __init__(s):
                    s.i = 0

                def __iter__(s):
                    return s

                def __next__(s):
                    scn.recent[:] = [src]
                    U._h('leaves.__next__')
                    if s.i >= len(src):
                        raise StopIteration
                    s.i += 1
                    return src[s.i - 1]

            return spec.unflatten(It())
        if name in ('unflatten_list', 'walk_list'):
            # leaves given as an exact LIST; the engine calls back into Python while it consumes it (custom unflatten
            # functions, namedtuple subclass constructors, visitors) and those callbacks see the very list object
            leaves, spec = optree.tree_flatten(self.pristine, **kw)
            big = list(leaves) + []
            self.recent[:] = [big]
            self.leaves_list = big
            if name == 'walk_list':
                def f_node(tp, meta, ch):
                    self.recent[:] = [big]
                    U._h('f_node')
                    return ch

                def f_leaf(x):
                    self.recent[:] = [big]
                    U._h('f_leaf')
                    return x
                return spec.walk(big, f_node, f_leaf)
            return optree.tree_unflatten(spec, big)
        if name == 'walk':
            leaves, spec = optree.tree_flatten(self.pristine, **kw)

            def f_node(tp, meta, ch):
                U._h('f_node')
                return ch

            def f_leaf(x):
                U._h('f_leaf')
                return x

            return spec.walk(leaves, f_node, f_leaf)
        if name == 'spec_ops':
            # operations that work on treespecs only (their scratch vectors are what the sanitizer build watches)
            spec = optree.tree_structure(tree, is_leaf=self.pred, **kw)
            other = optree.tree_structure(tree2, **kw)

            def f_tnode(sp):
                U._h('f_node')
                return sp

            def f_tleaf(sp):
                U._h('f_leaf')
                return sp

            out = [optree.treespec_transform(spec, f_tnode, f_tleaf), optree.treespec_transform(other, None, f_tleaf), spec.compose(other.child(0) if other.num_children else other),
                   spec.broadcast_to_common_suffix(other), other.broadcast_to_common_suffix(spec), spec.children(), spec.one_level(), spec.paths(), spec.accessors(),
                   spec.is_prefix(other), other.is_suffix(spec), spec.traverse(list(range(spec.num_leaves)), lambda x: (U._h('f_node'), x)[1], None),
                   pickle.loads(pickle.dumps(other)), copy.deepcopy(spec), optree.treespec_tuple([spec, other], **kw),
                   optree.tree_transpose(other, optree.tree_structure((0, 0), **kw), other.unflatten([(i, i) for i in range(other.num_leaves)]))]
            for sp in out[:5]:
                repr(sp), hash(sp)
            return len(out)
        if name == 'all_leaves':
            col = [tree, tree2] + list(py_children(tree) or [])
            self.recent = [col]
            return optree.all_leaves(col, is_leaf=self.pred, **kw)
        if name == 'transpose_map':
            return optree.tree_transpose_map(lambda x: (self.fmap(x), x), tree, is_leaf=self.pred, **kw)
        if name == 'one_level':
            r = optree.tree_flatten_one_level(tree, is_leaf=self.pred, **kw)
            return list(r[0])
        raise AssertionError(name)

    def close(self):
        U.HOOK = None
        self.reg.unregister_all()


class Inconsistent(Exception):
    pass


def assert_consistent(cond, what):
    if not cond:
        raise Inconsistent(what)


def check_flat(res):
    leaves, spec = res
    assert_consistent(len(leaves) == spec.num_leaves, 'len(leaves)=%d != num_leaves=%d' % (len(leaves), spec.num_leaves))
    for x in leaves:
        type(x)  # every leaf is a live object
    spec.unflatten(leaves)
    return res


def mutate(target, how, ctx_leaf):
    """Apply one interference to one container. Returns False when not applicable."""
    try:
        if isinstance(target, U.Node):
            target = target.children
        if hasattr(type(target), '__optree_dataclass_fields__'):
            # an optree dataclass: fields can be rebound or deleted, the field count is fixed by the class
            names = list(type(target).__optree_dataclass_fields__[0])
            if how == 'replace':
                setattr(target, names[0], [ctx_leaf, {'q': ctx_leaf}])
            elif how in ('delete_back', 'clear'):
                if not hasattr(target, names[-1]):
                    return False
                delattr(target, names[-1])
            elif how == 'rotate' and len(names) > 1:
                a, b = getattr(target, names[0]), getattr(target, names[-1])
                setattr(target, names[0], b)
                setattr(target, names[-1], a)
            else:
                return False
            return True
        if isinstance(target, dict):
            keys = list(dict.keys(target))
            if how == 'delete_front':
                if not keys:
                    return False
                del target[keys[0]]
            elif how == 'delete_back':
                if not keys:
                    return False
                del target[keys[-1]]
            elif how == 'clear':
                target.clear()
            elif how == 'append':
                for j in range(40):  # force a resize of the key table
                    target['zz%d' % j] = ctx_leaf
            elif how == 'replace':
                if not keys:
                    return False
                target[keys[0]] = [ctx_leaf, {'q': ctx_leaf}]
            elif how == 'rotate':
                if len(keys) < 2:
                    return False
                if isinstance(target, OrderedDict):
                    target.move_to_end(keys[0])
                    target.popitem()
                else:
                    v = target.pop(keys[0])
                    target[keys[0]] = v
                    del target[keys[1]]
            return True
        if isinstance(target, (list, deque)):
            if how == 'delete_front':
                if not target:
                    return False
                del target[0]
            elif how == 'delete_back':
                if not target:
                    return False
                del target[-1]
            elif how == 'clear':
                target.clear()
            elif how == 'append':
                if isinstance(target, deque) and target.maxlen is not None:
                    target.append(ctx_leaf)
                else:
                    target.extend([ctx_leaf] * 40)
            elif how == 'replace':
                if not target:
                    return False
                target[0] = [ctx_leaf, {'q': ctx_leaf}]
            elif how == 'rotate':
                if len(target) < 2:
                    return False
                if isinstance(target, deque):
                    target.rotate(1)
                    target.pop()
                else:
                    target.reverse()
                    target.pop()
            return True
    except (TypeError, RuntimeError, KeyError, IndexError):
        return False
    return False  # tuples / namedtuples / struct sequences are immutable


def clone_with(tree, victim, how, ctx):
    """Structural copy of ``tree`` in which the one container ``victim`` has a different number of children."""
    def alter(items):
        items = list(items)
        if how == 'shorter':
            return items[:-1]
        if how == 'much-shorter':
            return items[:1] if len(items) > 2 else items[:-1]
        if how == 'empty':
            return []
        return items + [ctx.leaf()]

    def swap_kind(x, kids_or_items):
        # same children, another container kind of the same family (dict-like <-> dict-like, sequence <-> sequence)
        if isinstance(x, dict):
            items = kids_or_items
            if isinstance(x, defaultdict):
                return dict(items) if len(items) % 2 else OrderedDict(items)
            if isinstance(x, OrderedDict):
                return defaultdict(int, items) if len(items) % 2 else dict(items)
            return defaultdict(list, items) if len(items) % 2 else OrderedDict(items)
        kids = kids_or_items
        if isinstance(x, deque):
            return list(kids)
        if isinstance(x, list):
            return tuple(kids) if len(kids) % 2 else deque(kids)
        if type(x) is tuple:
            return list(kids)
        if hasattr(x, '_fields'):
            return tuple(kids)
        return tuple(kids)

    def rec(x):
        ch = py_children(x)
        if ch is None:
            return x
        if isinstance(x, U.Node):
            kids = [rec(c) for c in x.children]
            return type(x)(alter(kids) if x is victim else kids, x.aux)
        if hasattr(type(x), '__optree_dataclass_fields__'):
            names = list(type(x).__optree_dataclass_fields__[0])
            kids = [rec(getattr(x, n)) for n in names]
            if x is victim:  # the field count belongs to the class: the mismatching twin is a plain tuple
                return tuple(kids) if how == 'kind-swap' else tuple(alter(kids))
            new = clone(x)
            for n, k in zip(names, kids):
                object.__setattr__(new, n, k)
            return new
        if isinstance(x, dict):
            items = [(k, rec(v)) for k, v in x.items()]
            if x is victim and how == 'kind-swap':
                return swap_kind(x, items)
            if x is victim:
                items = alter(items) if how != 'longer' else items + [('extra-key', ctx.leaf())]
            if isinstance(x, defaultdict):
                return defaultdict(x.default_factory, items)
            return type(x)(items)
        kids = [rec(c) for c in x]
        if x is victim and how == 'kind-swap':
            return swap_kind(x, kids)
        if x is victim:
            kids = alter(kids)
        if isinstance(x, deque):
            return deque(kids, maxlen=x.maxlen)
        if isinstance(x, list):
            return kids
        if type(x) is tuple:
            return tuple(kids)
        if hasattr(x, '_fields'):
            return tuple.__new__(type(x), kids)  # a same-class namedtuple whose length need not match _fields
        try:
            return type(x)(tuple(kids))  # struct sequence: refuses a wrong length itself
        except TypeError:
            return tuple(kids)
    return rec(tree)


def container_kind(x):
    if isinstance(x, U.Node):
        return 'custom'
    return type(x).__name__


def run_reentry(job, io):
    tape = Tape(replay=job['tape']) if 'tape' in job else Tape(seed=derive_seed(job.get('seed', 0), PROPERTY, 're', job['i']))
    scn = RScn(tape)
    op = tape.choice(TRAVERSALS, 'op')
    violations, keys, probes = [], set(), collections.Counter()
    events = []
    U.HOOK = events.append
    try:
        scn.run(op)
        base_ok = True
    except Inconsistent as e:
        violations.append({'cls': 'inconsistent', 'site': '%s@baseline' % op, 'msg': str(e)})
        base_ok = False
    except Exception:  # noqa: BLE001
        base_ok = False
    U.HOOK = None
    labels = list(events)
    K = len(labels)
    ks = list(range(1, K + 1))
    if K > 60:
        ks = ks[:30] + sorted(tape.shuffle(ks[30:], 'k-sample')[:30])
    spare = scn.ctx.leaf()
    execs = 0
    ntargets = 6
    random_pick = tape.draw(1 << 16, 'rnd-target')
    for k in ks:
        label = labels[k - 1]
        plans = [('mut', m, ti) for m in MUTATIONS for ti in range(ntargets)] + [('re', r, 0) for r in REENTRIES]
        for (what, how, ti) in plans:
            scn.reset()
            cnt = [0]
            applied = [None]

            def hook(lab, cnt=cnt, k=k, what=what, how=how, ti=ti, applied=applied):
                cnt[0] += 1
                if cnt[0] != k:
                    return
                if what == 'mut':
                    if op in ('unflatten_list', 'walk_list') and getattr(scn, 'leaves_list', None) is not None:
                        scn.recent[:] = [scn.leaves_list]
                    rec = scn.recent
                    if ti < 3:
                        target = rec[-1 - ti] if len(rec) > ti else None
                    elif ti == 3:
                        target = scn.custom_children[-1] if scn.custom_children else None
                    elif ti == 4:
                        cont = [x for x in walk(scn.tree) if py_children(x) is not None and not isinstance(x, tuple)]
                        target = cont[random_pick % len(cont)] if cont else None
                    else:  # a container of the SECOND operand (tree_map / broadcast / prefix_errors read it by the first one's shape)
                        cont = [x for x in walk(scn.tree2) if py_children(x) is not None and not isinstance(x, tuple)]
                        target = cont[(random_pick // 7) % len(cont)] if cont else None
                    if target is not None and mutate(target, how, spare):
                        applied[0] = container_kind(target)
                else:
                    U.HOOK = None
                    try:
                        if how == 'iter_next':
                            if scn.it is not None:
                                applied[0] = 'iter'
                                next(scn.it)
                                next(scn.it)
                        elif how == 'flatten':
                            applied[0] = 'tree'
                            optree.tree_flatten(scn.tree, **scn.kw)
                            optree.tree_flatten_with_path(scn.tree, **scn.kw)
                        elif how == 'unflatten':
                            applied[0] = 'spec'
                            lv, sp = optree.tree_flatten(scn.pristine, **scn.kw)
                            sp.unflatten(lv)
                            sp.paths(), sp.children(), repr(sp), hash(sp)
                        elif how == 'register':
                            applied[0] = 'registry'
                            cls0, ns0, f0 = scn.reg.live[0]
                            optree.unregister_pytree_node(cls0, namespace=ns0)
                            optree.register_pytree_node(cls0, f0.flatten, f0.unflatten, namespace=ns0)
                        elif how == 'gc':
                            applied[0] = 'gc'
                            gc.collect()
                        elif how == 'dictmode':
                            applied[0] = 'mode'
                            with optree.dict_insertion_ordered(True, namespace=scn.ns):
                                optree.tree_leaves(scn.tree2, **scn.kw)
                            with optree.dict_insertion_ordered(False, namespace=GLOBAL):
                                pass
                    except (StopIteration, ValueError, TypeError, RuntimeError, RecursionError, KeyError, IndexError):
                        pass
                    finally:
                        U.HOOK = hook

            site = '%s@%s' % (op, label)
            io.progress({'site': '%s/%s:%s' % (site, what, how), 'k': k, 'tape': tape.values})
            U.HOOK = hook
            try:
                scn.run(op)
                oc = 'consistent'
            except Inconsistent as e:
                oc = 'inconsistent'
                if len(violations) < 6:
                    violations.append({'cls': 'inconsistent', 'site': '%s/%s:%s' % (site, what, how),
                                       'msg': '%s | tree=%s target=%s' % (e, gen.describe(scn.pristine)[:300], applied[0])})
            except SystemError:
                oc = 'exception'
                probes['outcome:internal-error'] += 1
            except RecursionError:
                oc = 'exception'
            except Exception:  # noqa: BLE001
                oc = 'exception'
            finally:
                U.HOOK = None
            execs += 1
            if applied[0] is not None:
                probes['%s:%s' % ('mut' if what == 'mut' else 're', how)] += 1
                probes['outcome:' + oc] += 1
                keys.add('re|%s|%s|%s:%s|%s|%s' % (op, label, what, how, applied[0], oc))
    for lab in labels:
        probes[lab] += 1
    desc = {'op': op, 'tree': gen.describe(scn.pristine)[:300], 'K': K, 'executions': execs}
    scn.close()
    dig = hashlib.sha256(repr((op, labels, sorted(keys), [v['site'] for v in violations])).encode()).hexdigest()
    out = {'digest': dig, 'violations': violations, 'keys': sorted(keys), 'steps': execs * max(K, 1), 'probes': dict(probes),
           'faults_cfg': {'mutate': 1, 'reenter': 1, 'gc': 1},
           'faults_fired': {'mutate': sum(v for p, v in probes.items() if p.startswith('mut:')),
                            'reenter': sum(v for p, v in probes.items() if p.startswith('re:') and p != 're:gc'),
                            'gc': probes.get('re:gc', 0)},
           'sample': desc if job.get('i', 0) % 40 == 0 else None, 'extra': {'reentry_executions': execs}}
    if violations or job.get('_min') or job.get('_stream_tape'):
        out['tape'] = tape.values
        out['ops'] = desc
    return out


# -------------------------------------------------------------------------------------------------- depth
DEPTH_KINDS = ('list', 'tuple', 'dict', 'odict', 'ddict', 'deque', 'nt', 'custom', 'custom_gen', 'mixed', 'selfref', 'composed', 'wide')
NTD = collections.namedtuple('NTD', ['a'])


def nest(kind, d, base):
    t = base
    for j in range(d):
        kk = kind
        if kind == 'mixed':
            kk = ('list', 'tuple', 'dict', 'odict', 'ddict', 'deque', 'nt', 'custom')[j % 8]
        if kk == 'list':
            t = [t]
        elif kk == 'tuple':
            t = (t,)
        elif kk == 'dict':
            t = {'a': t}
        elif kk == 'odict':
            t = OrderedDict(a=t)
        elif kk == 'ddict':
            t = defaultdict(int, a=t)
        elif kk == 'deque':
            t = deque([t])
        elif kk == 'nt':
            t = NTD(t)
        elif kk in ('custom', 'custom_gen'):
            t = U.CA([t])
    return t


def _accepts_bottom(x):
    if isinstance(x, U.Leaf):
        return True
    if isinstance(x, U.Node):
        return not x.children
    return isinstance(x, (list, tuple, dict, deque)) and len(x) == 0


def run_depth(job, io):
    sys.setrecursionlimit(20000)
    kind = job['node']
    L = _C.MAX_RECURSION_DEPTH
    reg = Registry()
    reg.register(U.CA, 'ns', style=2 if kind == 'custom_gen' else 0)
    kw = {'namespace': 'ns'}
    violations, keys, probes = [], set(), collections.Counter()
    trav = {
        'flatten': lambda t: optree.tree_flatten(t, **kw),
        'flatten_with_path': lambda t: optree.tree_flatten_with_path(t, **kw),
        'iter': lambda t: list(optree.tree_iter(t, **kw)),
        'flatten_pred': lambda t: optree.tree_flatten(t, is_leaf=lambda x: False, **kw),
        'iter_pred': lambda t: list(optree.tree_iter(t, is_leaf=lambda x: False, **kw)),
        'flatten_with_path_nil': lambda t: optree.tree_flatten_with_path(t, none_is_leaf=True, **kw),
        # a predicate that ACCEPTS what sits at the bottom (empty containers, childless custom nodes, leaves): whether the
        # depth is checked before or after asking the predicate must not differ between the three traversals
        'flatten_accept': lambda t: optree.tree_flatten(t, is_leaf=_accepts_bottom, **kw),
        'flatten_with_path_accept': lambda t: optree.tree_flatten_with_path(t, is_leaf=_accepts_bottom, **kw),
        'iter_accept': lambda t: list(optree.tree_iter(t, is_leaf=_accepts_bottom, **kw)),
        'paths_accept': lambda t: optree.tree_paths(t, is_leaf=_accepts_bottom, **kw),
    }

    def viol(cls, site, msg):
        violations.append({'cls': cls, 'site': site, 'msg': msg})

    if kind == 'wide':
        # WIDTH around and far above the depth limit: a node with L-1 ... L+2 and 20 000 children, of every kind, also two levels
        # of such nodes.  Depth is 1-2, so everything must work in every operation (a size threshold that belongs to depth
        # must not leak into width), and the results must be consistent.
        def mk(k, n):
            lv = [U.Leaf(i) for i in range(n)]
            if k == 'list':
                return lv
            if k == 'tuple':
                return tuple(lv)
            if k == 'dict':
                return {i: x for i, x in enumerate(lv)}
            if k == 'odict':
                return OrderedDict((('k%d' % i), x) for i, x in enumerate(lv))
            if k == 'ddict':
                return defaultdict(int, {i: x for i, x in enumerate(lv)})
            if k == 'deque':
                return deque(lv)
            return U.CA(lv, 0)
        for k in ('list', 'tuple', 'dict', 'odict', 'ddict', 'deque', 'custom'):
            for n in (L - 1, L, L + 1, L + 2, 20000):
                for two_level in (False, True):
                    t = mk(k, n)
                    if two_level:
                        t = [t, mk(k, L + 1)]
                    site = 'depth:wide:%s:%d%s' % (k, n, ':x2' if two_level else '')
                    io.progress({'site': site})
                    try:
                        leaves, spec = optree.tree_flatten(t, **kw)
                        want = n + (L + 1 if two_level else 0)
                        ok = (len(leaves) == want == spec.num_leaves and len(spec.paths()) == want and len(spec.accessors()) == want and
                              len(list(optree.tree_iter(t, **kw))) == want and spec == optree.tree_structure(t, **kw) and
                              pickle.loads(pickle.dumps(spec)) == spec and same(spec.unflatten(leaves), t) is None and
                              len(optree.tree_leaves(optree.tree_map(lambda a, b: a, t, t, **kw), **kw)) == want and
                              spec.is_prefix(spec) and spec.broadcast_to_common_suffix(spec) == spec and
                              len(repr(spec)) > n and isinstance(hash(spec), int) and
                              sum(c.num_leaves for c in spec.children()) == want and not optree.prefix_errors(t, t, **kw))
                        if not ok:
                            viol('inconsistent', site, 'operations on a %s node with %d children (depth %d) are not consistent with each other' % (k, n, 2 if two_level else 1))
                        oc = 'ok'
                    except Exception as e:  # noqa: BLE001
                        viol('wide-refused', site, 'an operation on a %s node with %d children (depth %d) raised %s: %s' % (k, n, 2 if two_level else 1, type(e).__name__, str(e)[:200]))
                        oc = type(e).__name__
                    probes['depth:wide'] += 1
                    keys.add('depth|wide|%s|%d|%s|%s' % (k, n, two_level, oc))
    elif kind == 'composed':
        # treespecs DEEPER than any tree can be: compose() / transform() stack legal treespecs on top of each other.
        # Every treespec method must then either work or raise (RecursionError) — never overflow the native stack.
        for base_kind in ('list', 'dict', 'custom', 'mixed'):
            base = optree.tree_structure(nest(base_kind, L - 100, U.Leaf(1)), **kw)
            for times in (1, 2, 40):
                c = base
                for _ in range(times):
                    c = c.compose(base)
                deep_leaves = [U.Leaf(i) for i in range(c.num_leaves)]
                methods = {
                    'repr': lambda: repr(c), 'hash': lambda: hash(c), 'eq': lambda: c == c, 'unflatten': lambda: c.unflatten(deep_leaves),
                    'children': lambda: c.children(), 'child': lambda: c.child(0), 'one_level': lambda: c.one_level(), 'is_prefix': lambda: c.is_prefix(c),
                    'pickle': lambda: pickle.loads(pickle.dumps(c)), 'paths': lambda: c.paths(), 'accessors': lambda: c.accessors(),
                    'entries': lambda: c.entries(), 'transform': lambda: c.transform(lambda s: s, lambda s: s), 'walk': lambda: c.walk(deep_leaves),
                    'traverse': lambda: c.traverse(deep_leaves), 'common_suffix': lambda: c.broadcast_to_common_suffix(c),
                    'compose': lambda: c.compose(base), 'treespec_paths': lambda: optree.treespec_paths(c), 'treespec_accessors': lambda: optree.treespec_accessors(c),
                    'is_suffix': lambda: c.is_suffix(base), 'le': lambda: base <= c,
                }
                if times >= 40:
                    del methods['repr']  # building the string is quadratic in the depth (minutes at 37 000 levels), not a hang
                for mname, f in methods.items():
                    io.progress({'site': 'depth:composed:%s:x%d:%s' % (base_kind, times + 1, mname)})
                    try:
                        f()
                        oc = 'ok'
                    except RecursionError:
                        oc = 'RE'
                        probes['depth:RecursionError'] += 1
                    except (ValueError, TypeError, RuntimeError, MemoryError) as e:
                        oc = type(e).__name__
                    keys.add('depth|composed|%s|x%d|%s|%s' % (base_kind, times + 1, mname, oc))
                del c, deep_leaves
    elif kind == 'selfref':
        cases = []
        a = []
        a.append(a)
        cases.append(('list', a))
        d = {}
        d['x'] = d
        cases.append(('dict', d))
        dq = deque()
        dq.append(dq)
        cases.append(('deque', dq))
        n = U.CA([])
        n.children.append(n)
        cases.append(('custom', n))
        od = OrderedDict()
        od['k'] = [od]
        cases.append(('odict-list', od))
        dd = defaultdict(list)
        dd['k'] = dd
        cases.append(('defaultdict', dd))
        lst = []
        lst.append(NTD(lst))
        cases.append(('namedtuple-list', lst[0]))
        lst2 = []
        lst2.append(U.make_structseq([lst2] + [0] * 8))
        cases.append(('structseq-list', lst2))
        tl = []
        tl.append((1, {'x': (tl,)}))
        cases.append(('tuple-dict-tuple-list', tl))
        for style, cls in ((1, U.CB), (2, U.CC), (3, U.CD)):
            reg.register(cls, 'ns', style=style)
            nn = cls([])
            nn.children.append(nn)
            cases.append(('custom-style%d' % style, nn))
            nm = cls([])
            nm.children.append([{'q': nm}])
            cases.append(('custom-style%d-via-list-dict' % style, nm))
        for cname, tree in cases:
            for tname, f in trav.items():
                io.progress({'site': 'depth:selfref:%s:%s' % (cname, tname)})
                try:
                    f(tree)
                    viol('no-recursion-error', 'depth:selfref:%s:%s' % (cname, tname), 'self-referential %s was flattened without RecursionError' % cname)
                except RecursionError:
                    keys.add('depth|selfref|%s|%s|RE' % (cname, tname))
                    probes['depth:RecursionError'] += 1
        # break the cycles so that the collector has nothing odd to do
        a.clear(), d.clear(), dq.clear(), n.children.clear(), od.clear(), dd.clear(), lst.clear(), lst2.clear(), tl.clear()
        for _, tree in cases:
            if isinstance(tree, U.Node):
                tree.children.clear()
    else:
        # bottoms: what sits at the deepest level — a leaf, or a childless NODE (which a traversal may treat differently
        # from a leaf when it decides where to count depth)
        bottoms = (('leaf', lambda: U.Leaf(1)), ('none', lambda: None), ('empty-list', lambda: []), ('empty-tuple', lambda: ()),
                   ('empty-dict', lambda: {}), ('empty-deque', lambda: deque()), ('empty-namedtuple', lambda: U.NT0()),
                   ('childless-custom', lambda: U.CA([])), ('empty-odict', lambda: OrderedDict()), ('empty-ddict', lambda: defaultdict(int)))
        for bname, bottom in bottoms[1:]:
            for delta in (-1, 0, 1):
                # the bottom node itself sits at depth L + delta (it is a node, so it counts as one more level than a leaf would)
                tree = nest(kind, L + delta, bottom())
                got = {}
                for tname, f in trav.items():
                    io.progress({'site': 'depth:%s:%s:%+d:%s' % (kind, bname, delta, tname)})
                    try:
                        f(tree)
                        got[tname] = 'ok'
                    except RecursionError:
                        got[tname] = 'RE'
                keys.add('depth|%s|%s|%+d|%s' % (kind, bname, delta, ''.join(sorted(set(got.values())))))
                # none_is_leaf traversals legitimately see None as a leaf; compare within each none_is_leaf group
                grp_a = {k: v for k, v in got.items() if not k.endswith('_nil')}
                if len(set(grp_a.values())) != 1:
                    viol('depth-disagree', 'depth:%s:%s:%+d' % (kind, bname, delta), 'traversals disagree for a %s at depth L%+d below nested %s: %r' % (bname, delta, kind, got))
                elif delta <= 0 and set(grp_a.values()) != {'ok'}:
                    viol('depth-limit', 'depth:%s:%s:%+d' % (kind, bname, delta), 'tree with a %s at depth L%+d (<= limit) is rejected: %r' % (bname, delta, got))
                del tree
        for delta in (-1, 0, 1, 2):
            tree = nest(kind, L + delta, U.Leaf(1))
            got = {}
            for tname, f in trav.items():
                io.progress({'site': 'depth:%s:%+d:%s' % (kind, delta, tname)})
                try:
                    f(tree)
                    got[tname] = 'ok'
                except RecursionError:
                    got[tname] = 'RE'
                    probes['depth:RecursionError'] += 1
                keys.add('depth|%s|%+d|%s|%s' % (kind, delta, tname, got[tname]))
            if len(set(got.values())) != 1:
                viol('depth-disagree', 'depth:%s:%+d' % (kind, delta), 'traversals disagree at depth L%+d: %r' % (delta, got))
            want = 'ok' if delta <= 0 else 'RE'
            if set(got.values()) == {'ok' if want == 'RE' else 'RE'}:
                viol('depth-limit', 'depth:%s:%+d' % (kind, delta), 'all traversals %s at depth L%+d (L=%d), expected %s' % (list(got.values())[0], delta, L, want))
            if delta <= 0 and set(got.values()) == {'ok'}:
                leaves, spec = optree.tree_flatten(tree, **kw)
                others = {
                    'unflatten': lambda: spec.unflatten(leaves),
                    'repr': lambda: repr(spec),
                    'hash': lambda: hash(spec),
                    'eq': lambda: spec == optree.tree_structure(tree, **kw),
                    'map': lambda: optree.tree_map(lambda x: x, tree, **kw),
                    'map_with_path': lambda: optree.tree_map_with_path(lambda p, x: x, tree, **kw),
                    'paths': lambda: spec.paths(),
                    'accessors': lambda: optree.tree_accessors(tree, **kw)[0],
                    'pickle': lambda: pickle.loads(pickle.dumps(spec)),
                    'children': lambda: spec.children(),
                    'one_level': lambda: spec.one_level(),
                    'transform': lambda: spec.transform(lambda s: s, lambda s: s),
                    'walk': lambda: spec.walk(leaves),
                    'traverse': lambda: spec.traverse(leaves),
                    'flatten_one_level': lambda: optree.tree_flatten_one_level(tree, **kw),
                    'is_prefix': lambda: spec.is_prefix(spec),
                    'flatten_up_to': lambda: spec.flatten_up_to(tree),
                    'broadcast_prefix': lambda: optree.tree_broadcast_prefix(tree, tree, **kw),
                    'broadcast_common': lambda: optree.tree_broadcast_common(tree, tree, **kw),
                    'compose': lambda: optree.tree_structure([0, 0]).compose(optree.tree_structure(nest(kind, L + delta - 1, U.Leaf(2)), **kw)),
                    'prefix_errors': lambda: optree.prefix_errors(tree, tree, **kw),
                    'leaves': lambda: optree.tree_leaves(tree, **kw),
                    'reduce': lambda: optree.tree_reduce(lambda a, b: a, tree, **kw),
                    'replace_nones': lambda: optree.tree_replace_nones(0, tree, namespace='ns'),
                }
                if kind not in ('custom', 'custom_gen', 'mixed'):  # AutoEntry cannot index our custom node class
                    others['accessor_call'] = lambda: optree.tree_accessors(tree, **kw)[0](tree)
                for oname, f in others.items():
                    io.progress({'site': 'depth:%s:%+d:%s' % (kind, delta, oname)})
                    try:
                        f()
                        keys.add('depth|%s|%+d|%s|ok' % (kind, delta, oname))
                    except RecursionError as e:
                        viol('depth-other-op', 'depth:%s:%+d:%s' % (kind, delta, oname), 'tree at depth L%+d (<= limit) but %s raised RecursionError: %s' % (delta, oname, e))
                del leaves, spec
            # tear the deep tree down iteratively: a 1000-deep dealloc chain is fine for CPython's trashcan, but keep it cheap
            del tree
    reg.unregister_all()
    dig = hashlib.sha256(repr((kind, sorted(keys), [v['site'] for v in violations])).encode()).hexdigest()
    return {'digest': dig, 'violations': violations, 'keys': sorted(keys), 'steps': len(keys), 'probes': dict(probes),
            'sample': {'depth_job': kind, 'L': L, 'cases': len(keys)}, 'extra': {'depth_cases': len(keys)}}


# -------------------------------------------------------------------------------------------------- confusion
def arg_pool(t):
    spec = optree.tree_structure({'a': (1, 2), 'b': [3]})
    spec2 = optree.tree_structure([1, None, U.NT1(1, 2)], none_is_leaf=True)
    leafspec = optree.treespec_leaf()
    it = optree.tree_iter([1, [2, 3]])
    pool = [None, 0, -1, 1, 3, -2, -3, -4, 4, 2 ** 62, -2 ** 63, 3.5, 'x', '', b'y', (), [], {}, set(), [1, 2], (1, (2, 3)), {'a': 1}, spec, spec2,
            leafspec, it, iter([1, 2]), object(), int, list, type(None), U.NT1, U.NT1(1, 2), lambda *a, **k: None, len,
            deque([1]), OrderedDict(a=1), defaultdict(list), True, ..., NotImplemented, [spec, spec2], (spec, leafspec),
            {'k': spec}, U.Key(1), U.Leaf(1), range(3), 'namespace', float('nan'), [None], (None,), {'a': None}]
    return pool, (spec, spec2, leafspec), it


def run_confusion(job, io):
    tape = Tape(replay=job['tape']) if 'tape' in job else Tape(seed=derive_seed(job.get('seed', 0), PROPERTY, 'cf', job['i']))
    violations, keys, probes = [], set(), collections.Counter()
    pool, pool_specs, pool_it = arg_pool(tape)
    spec = pool_specs[0]
    fns = []
    for name in sorted(dir(_C)):
        obj = getattr(_C, name)
        if callable(obj) and not name.startswith('_') and not isinstance(obj, type):
            fns.append(('_C.' + name, obj))
    for name in sorted(dir(_C.PyTreeSpec)):
        if name.startswith('__') and name not in ('__eq__', '__ne__', '__lt__', '__le__', '__gt__', '__ge__', '__hash__', '__len__',
                                                  '__repr__', '__setstate__', '__getstate__', '__init__', '__reduce__'):
            continue
        fns.append(('PyTreeSpec.' + name, ('method', name)))
    fns.append(('PyTreeIter', _C.PyTreeIter))
    fns.append(('PyTreeIter.__next__', ('iter', '__next__')))
    # the Python layer's public functions too: they pre-process arguments (zip treespecs, build inner treespecs, wrap callables)
    # before the engine sees them, so a wrong-typed argument reaches engine paths the raw entry points do not
    for name in sorted(optree.__all__):
        obj = getattr(optree, name)
        if (callable(obj) and not isinstance(obj, type) and not name.startswith(('register_', 'unregister_', 'dict_insertion'))
                and getattr(obj, '__module__', '').startswith('optree')):
            fns.append(('optree.' + name, obj))
    # ---- deterministic sub-sweeps with a functional oracle: child / entry indices and unflatten leaf counts
    ctx = gen.swarm_ctx(tape)
    for _ in range(3):
        tree = gen.gen_tree(tape, 2 + tape.draw(14, 'sweep-budget'), ctx)
        sp = optree.tree_structure(tree, none_is_leaf=bool(tape.draw(2, 'sweep-nil')))
        n = sp.num_children
        ch = sp.children()
        ents = sp.entries()
        for i in range(-n - 3, n + 4):
            io.progress({'site': 'confusion:child-index', 'tape': tape.values})
            probes['index-sweep'] += 1
            for nm, ref in (('child', ch), ('entry', ents)):
                try:
                    got = getattr(sp, nm)(i)
                    ok = -n <= i < n and (got == ref[i])
                    if not ok:
                        violations.append({'cls': 'index-accepted', 'site': 'confusion:%s-index' % nm,
                                           'msg': '%s(%d) on a treespec with %d children returned %r (valid indices are %d..%d and must equal %ss()[i])' % (nm, i, n, got, -n, n - 1, nm)})
                except IndexError:
                    if -n <= i < n:
                        violations.append({'cls': 'index-rejected', 'site': 'confusion:%s-index' % nm, 'msg': '%s(%d) raised IndexError for %d children' % (nm, i, n)})
                keys.add('cf|%s-index|%s' % (nm, 'in' if -n <= i < n else 'out'))
        nl = sp.num_leaves
        for k in list(range(0, nl + 3)) + [nl * 2 + 5]:
            io.progress({'site': 'confusion:leaf-count', 'tape': tape.values})
            probes['leafcount-sweep'] += 1
            for how in ('unflatten', 'walk', 'traverse', 'tree_unflatten_iter', 'unflatten_gen', 'unflatten_map', 'unflatten_chain', 'unflatten_tuple', 'unflatten_deque',
                        'walk_gen', 'traverse_iter', 'unflatten_dictkeys'):
                try:
                    lv = [U.Leaf(i) for i in range(k)]
                    if how == 'unflatten':
                        sp.unflatten(lv)
                    elif how == 'walk':
                        sp.walk(lv)
                    elif how == 'traverse':
                        sp.traverse(lv)
                    elif how == 'unflatten_gen':  # the count of a lazy producer is only known by consuming it
                        sp.unflatten(x for x in lv)
                    elif how == 'unflatten_map':
                        sp.unflatten(map(lambda x: x, lv))
                    elif how == 'unflatten_chain':
                        import itertools as _it
                        optree.tree_unflatten(sp, _it.chain(lv[:1], lv[1:]))
                    elif how == 'unflatten_tuple':
                        sp.unflatten(tuple(lv))
                    elif how == 'unflatten_deque':
                        sp.unflatten(deque(lv))
                    elif how == 'walk_gen':
                        sp.walk(x for x in lv)
                    elif how == 'traverse_iter':
                        sp.traverse(iter(lv))
                    elif how == 'unflatten_dictkeys':
                        sp.unflatten({x: None for x in lv}.keys())
                    else:
                        optree.tree_unflatten(sp, iter(lv))
                    if k != nl:
                        violations.append({'cls': 'leafcount-accepted', 'site': 'confusion:%s-leafcount' % how, 'msg': '%s accepted %d leaves for a treespec with %d' % (how, k, nl)})
                except ValueError:
                    if k == nl:
                        violations.append({'cls': 'leafcount-rejected', 'site': 'confusion:%s-leafcount' % how, 'msg': '%s rejected the exact number of leaves %d' % (how, nl)})
            keys.add('cf|leafcount|%s' % ('exact' if k == nl else 'fewer' if k < nl else 'more'))
    # ---- shape-mismatch sweep: a second operand that equals the first except that ONE container is shorter / longer /
    # empty (tuples and namedtuples too: tuple.__new__(cls, fewer) builds a same-class namedtuple of another length).
    # Multi-tree operations read the second operand by the first one's shape and must raise, not read out of bounds.
    reg = Registry()
    reg.register(U.CA, 'ns', style=0)
    reg.register(U.CB, 'ns', style=1)
    try:
        ctx2 = gen.Ctx(custom_classes=(U.CA, U.CB))
        for _ in range(4):
            t1 = gen.gen_tree(tape, 4 + tape.draw(20, 'mm-budget'), ctx2)
            conts = [x for x in walk(t1) if py_children(x) is not None and len(py_children(x)) > 0]
            if not conts:
                continue
            victim = conts[tape.draw(len(conts), 'mm-victim')]
            how = tape.choice(('shorter', 'longer', 'empty', 'much-shorter', 'kind-swap', 'kind-swap'), 'mm-how')
            t2 = clone_with(t1, victim, how, ctx2)
            big = tape.draw(4, 'mm-big') == 3
            if big and isinstance(victim, tuple) and hasattr(victim, '_fields'):
                pass
            kwm = {'namespace': 'ns', 'none_is_leaf': bool(tape.draw(2, 'mm-nil'))}
            s1 = optree.tree_structure(t1, **kwm)
            probes['mismatch-sweep'] += 1
            for opn, f in (('flatten_up_to', lambda: s1.flatten_up_to(t2)), ('map', lambda: optree.tree_map(lambda a, b: a, t1, t2, **kwm)),
                           ('map2', lambda: optree.tree_map(lambda a, b: a, t2, t1, **kwm)),
                           ('broadcast_prefix', lambda: optree.tree_broadcast_prefix(t1, t2, **kwm)), ('broadcast_common', lambda: optree.tree_broadcast_common(t1, t2, **kwm)),
                           ('prefix_errors', lambda: optree.prefix_errors(t1, t2, **kwm)), ('map_with_path', lambda: optree.tree_map_with_path(lambda p, a, b: a, t1, t2, **kwm)),
                           ('transpose_map', lambda: optree.tree_transpose_map(lambda a, b: (a, b), t1, t2, **kwm)),
                           ('is_prefix', lambda: s1.is_prefix(optree.tree_structure(t2, **kwm)))):
                io.progress({'site': 'confusion:mismatch:%s:%s:%s' % (opn, container_kind(victim), how), 'tape': tape.values})
                try:
                    f()
                    oc = 'ok'
                except (ValueError, TypeError, RuntimeError, KeyError, IndexError):
                    oc = 'exc'
                keys.add('cf|mismatch|%s|%s|%s|%s' % (opn, container_kind(victim) if not (isinstance(victim, tuple) and hasattr(victim, '_fields')) else 'namedtuple', how, oc))
            # the treespec of the mismatching twin itself (a namedtuple node whose arity differs from len(_fields) among them),
            # through every method: text, paths, accessors, pickle, ...
            try:
                s2 = optree.tree_structure(t2, **kwm)
            except (ValueError, TypeError, RuntimeError):
                s2 = None
            if s2 is not None and tape.draw(2, 'mm-use') == 1:
                exercise_spec(s2, io, 'confusion:mismatch-spec:%s' % how, tape, probes)
        # namedtuple classes that LIE about their fields: a subclass whose _fields names more (or fewer) fields than the tuple
        # holds, instances made by tuple.__new__ with another length, and _fields re-assigned after the treespec was made
        from collections import namedtuple as _ntf
        P2 = _ntf('P2', ['x', 'y'])
        QMore = type('QMore', (P2,), {'_fields': P2._fields + ('z0', 'z1', 'z2')[:1 + tape.draw(3, 'fl-extra')], '__slots__': ()})
        QLess = type('QLess', (P2,), {'_fields': ('x',), '__slots__': ()})
        QGrow = type('QGrow', (P2,), {'__slots__': ()})
        liars = [('more', QMore(U.Leaf(1), U.Leaf(2))), ('less', QLess(U.Leaf(1), U.Leaf(2))), ('new-short', tuple.__new__(P2, (U.Leaf(1),))),
                 ('new-long', tuple.__new__(P2, (U.Leaf(1), U.Leaf(2), U.Leaf(3), U.Leaf(4)))), ('new-empty', tuple.__new__(P2, ())), ('grow', QGrow(U.Leaf(1), U.Leaf(2)))]
        for lname, inst in liars:
            probes['field-liar-sweep'] += 1
            io.progress({'site': 'confusion:field-liar:%s' % lname, 'tape': tape.values})
            try:
                fl_spec = optree.tree_structure({'a': inst, 'b': [U.Leaf(9), inst]})
            except (ValueError, TypeError, RuntimeError):
                keys.add('cf|field-liar|%s|flatten-exc' % lname)
                continue
            if lname == 'grow':
                QGrow._fields = ('x', 'y', 'w', 'v')
            exercise_spec(fl_spec, io, 'confusion:field-liar:%s' % lname, tape, probes)
            exercise_spec(fl_spec.child(0), io, 'confusion:field-liar-child:%s' % lname, tape, probes)
            keys.add('cf|field-liar|%s|used' % lname)
        del P2, QMore, QLess, QGrow, liars
        # containers whose __len__ lies, as the children a custom flatten function returns and as leaves for unflatten
        fca = [f for (c, n, f) in reg.live if c is U.CA][0]
        liar_tree = [U.CA([U.Leaf(1), U.Leaf(2), U.Leaf(3)], 0), (U.CA([], 1),)]
        for lm in ('liar_long', 'liar_short', 'len0', 'len1', 'len4', 'not_tuple', 'noniter', 'entries_noniter', 'entries_len'):
            fca.malform = lm
            probes['liar-sweep'] += 1
            for opn, f in (('flatten', lambda: check_flat(optree.tree_flatten(liar_tree, namespace='ns'))), ('with_path', lambda: optree.tree_flatten_with_path(liar_tree, namespace='ns')),
                           ('iter', lambda: list(optree.tree_iter(liar_tree, namespace='ns'))), ('map', lambda: optree.tree_map(lambda a, b: a, liar_tree, liar_tree, namespace='ns')),
                           ('one_level', lambda: optree.tree_flatten_one_level(liar_tree[0], namespace='ns')), ('broadcast', lambda: optree.tree_broadcast_common(liar_tree, liar_tree, namespace='ns')),
                           ('from_collection', lambda: optree.treespec_from_collection(U.CA([optree.treespec_leaf()] * 2, 0), namespace='ns'))):
                io.progress({'site': 'confusion:liar:%s:%s' % (lm, opn), 'tape': tape.values})
                try:
                    f()
                    oc = 'ok'
                except (ValueError, TypeError, RuntimeError, IndexError, Inconsistent) as e:
                    oc = 'exc'
                    if isinstance(e, SystemError):
                        probes['outcome:internal-error'] += 1
                keys.add('cf|liar|%s|%s|%s' % (lm, opn, oc))
            fca.malform = None
        sp3 = optree.tree_structure([1, (2, 3), {'a': 4}])
        for liar in (U.LiarList([1, 2, 3, 4]), U.LiarShort([1, 2, 3, 4]), U.LiarList([1]), U.LiarShort([1, 2, 3, 4, 5])):
            for how in ('unflatten', 'walk', 'traverse'):
                io.progress({'site': 'confusion:liar-leaves:%s' % how, 'tape': tape.values})
                try:
                    getattr(sp3, how)(liar)
                except (ValueError, TypeError, RuntimeError, IndexError):
                    pass
        # an OrderedDict whose two halves disagree (written / deleted through dict.* behind its back): the engine reads the
        # size from one half and the keys from the other -- a Python exception or a CONSISTENT result, not a treespec whose
        # arity and key list differ
        for desync in ('extra-in-dict', 'missing-in-dict', 'both'):
            od = OrderedDict([('b', U.Leaf(1)), ('a', [U.Leaf(2)]), ('c', U.Leaf(3))])
            if desync in ('extra-in-dict', 'both'):
                dict.__setitem__(od, 'zz', U.Leaf(4))
            if desync in ('missing-in-dict', 'both'):
                dict.__delitem__(od, 'a')
            probes['desync-odict'] += 1
            for opn, f in (('flatten', lambda: check_flat(optree.tree_flatten([od]))), ('with_path', lambda: check_flat(optree.tree_flatten_with_path([od])[1:])),
                           ('iter', lambda: list(optree.tree_iter([od]))), ('structure-use', lambda: (lambda sp: (repr(sp), hash(sp), sp.paths(), sp.entries(), sp.children(), sp.unflatten(list(range(sp.num_leaves)))))(optree.tree_structure(od))),
                           ('map', lambda: optree.tree_map(lambda a, b: a, od, od)), ('from_collection', lambda: repr(optree.treespec_from_collection(OrderedDict((k, optree.treespec_leaf()) for k in od)))),
                           ('one_level', lambda: optree.tree_flatten_one_level(od)), ('flatten_up_to', lambda: optree.tree_structure({'b': 0, 'a': [0], 'c': 0}).flatten_up_to(od))):
                io.progress({'site': 'confusion:desync-odict:%s:%s' % (desync, opn), 'tape': tape.values})
                try:
                    f()
                    oc = 'ok'
                except Inconsistent as e:
                    oc = 'inconsistent'
                    violations.append({'cls': 'inconsistent', 'site': 'confusion:desync-odict:%s' % opn, 'msg': 'an OrderedDict out of sync with its underlying dict (%s) gives an inconsistent result: %s' % (desync, e)})
                except SystemError as e:
                    oc = 'internal'
                    violations.append({'cls': 'inconsistent', 'site': 'confusion:desync-odict:%s' % opn, 'msg': 'an OrderedDict out of sync with its underlying dict (%s): the treespec the engine built contradicts itself: %s' % (desync, str(e)[:200])})
                except (ValueError, TypeError, RuntimeError, KeyError, IndexError):
                    oc = 'exc'
                keys.add('cf|desync-odict|%s|%s|%s' % (desync, opn, oc))
    finally:
        reg.unregister_all()
    del violations[6:]
    registered = []
    n_calls = 60 + tape.draw(60, 'n-calls')
    for _ in range(n_calls):
        fname, fobj = fns[tape.draw(len(fns), 'fn')]
        nargs = tape.draw(5, 'nargs')
        args = [pool[tape.draw(len(pool), 'arg')] for _ in range(nargs)]
        kwargs = {}
        if tape.draw(4, 'kw?') == 3:
            kwname = tape.choice(('none_is_leaf', 'namespace', 'leaf_predicate', 'strict', 'f_node', 'f_leaf', 'bogus', 'is_leaf', 'inner_treespec', 'default', 'key', 'maxlen'), 'kwname')
            kwargs[kwname] = pool[tape.draw(len(pool), 'kwarg')]
        io.progress({'site': 'confusion:%s' % fname, 'tape': tape.values})
        try:
            if isinstance(fobj, tuple) and fobj[0] == 'method':
                target = tape.choice(pool_specs, 'self')
                if fobj[1] == '__setstate__' or fobj[1] == '__init__':
                    target = pickle.loads(pickle.dumps(target))  # never corrupt a spec others still use
                if fobj[1] in ('num_leaves', 'num_nodes', 'num_children', 'none_is_leaf', 'namespace', 'type', 'kind'):
                    getattr(target, fobj[1])
                else:
                    res = getattr(target, fobj[1])(*args, **kwargs)
                    if fobj[1] in ('__setstate__', '__init__'):
                        # whatever state was accepted must still behave
                        repr(target), hash(target), target.paths(), target.unflatten([0] * target.num_leaves)
            elif isinstance(fobj, tuple) and fobj[0] == 'iter':
                next(pool_it)
            else:
                res = fobj(*args, **kwargs)
                if fname == '_C.register_node':
                    registered.append((args, kwargs))
                if fname == '_C.set_dict_insertion_ordered' and args:
                    _C.set_dict_insertion_ordered(False, *(args[1:2] if len(args) > 1 and isinstance(args[1], str) else ()), **{k: v for k, v in kwargs.items() if k == 'namespace' and isinstance(v, str)})
                if type(res).__name__ == 'PyTreeSpec':
                    repr(res), hash(res), res.paths()
            oc = 'ok'
        except RecursionError:
            oc = 'exc'
        except SystemError as e:
            oc = 'exc'
            probes['outcome:internal-error'] += 1
        except BaseException as e:  # noqa: BLE001
            if isinstance(e, (KeyboardInterrupt, SystemExit)):
                raise
            oc = 'exc'
        probes['confusion:' + oc] += 1
        keys.add('cf|%s|%d|%s' % (fname, nargs, oc))
    for args, kwargs in registered:
        try:
            _C.unregister_node(args[0], *( [args[4]] if len(args) > 4 else []), **{k: v for k, v in kwargs.items() if k == 'namespace'})
        except Exception:  # noqa: BLE001
            pass
    dig = hashlib.sha256(repr(sorted(keys)).encode()).hexdigest()
    out = {'digest': dig, 'violations': violations, 'keys': sorted(keys), 'steps': n_calls, 'probes': dict(probes),
           'faults_cfg': {'arg': 1}, 'faults_fired': {'arg': n_calls},
           'sample': {'confusion_calls': n_calls} if job.get('i', 0) % 60 == 0 else None, 'extra': {'confusion_calls': n_calls}}
    if job.get('_min') or job.get('_stream_tape'):
        out['tape'] = tape.values
    return out


# -------------------------------------------------------------------------------------------------- stored state
# The durable form of a treespec is its pickled state.  "Disk faults" for a library: one field of a genuinely pickled state
# is changed (a flipped stored value), nodes are dropped / duplicated / swapped (a torn or reordered write), or bytes of the
# pickle stream itself are flipped / truncated.  Loading may fail with any Python exception; if it succeeds the treespec is
# used through every method.  Oracle: memory safety only (process survival, sanitizer silence, no hang).
STATE_FIELDS = ('kind', 'arity', 'node_data', 'entries', 'custom_type', 'num_leaves', 'num_nodes', 'original_keys')
STATE_CORRUPTIONS = ('field', 'field', 'field', 'drop-node', 'dup-node', 'swap-nodes', 'truncate', 'empty', 'flag', 'bytes-flip', 'bytes-truncate',
                     'node-width', 'legacy-layout')


def corrupt_value(t, fi, cur):
    if fi == 0:  # kind
        return t.choice((0, 1, 2, 3, 4, 5, 6, 7, 8, 9, 10, 11, -1, 99), 'kind-val')
    if fi in (1, 5, 6):  # arity / num_leaves / num_nodes
        base = cur if isinstance(cur, int) else 0
        return t.choice((-1, 0, base - 1, base + 1, base + 2, 1, 2, 1000, 2 ** 31, -2 ** 31, 2 ** 40, 2 ** 62, -2 ** 63), 'count-val')
    if fi == 2:  # node_data
        return t.choice((None, [], ['only'], ['a', 'b', 'c', 'd', 'e', 'f', 'g', 'h', 'i', 'j'], (int, []), (None, ['x'] * 9), (1,), (), 3, -1, 2 ** 62,
                         int, U.NT1, time_struct(), dict, 'str', {'a': 1}, U.NT0, object()), 'data-val')
    if fi == 3:  # entries
        return t.choice((None, (), (0,), tuple(range(12)), [0, 1], 'ab', 7), 'entries-val')
    if fi == 4:  # custom type
        return t.choice((None, U.CA, U.CB, int, list, 'CA', U.NT1), 'type-val')
    return t.choice((None, [], ['zz'], ['a', 'b', 'c', 'd', 'e', 'f', 'g', 'h', 'i', 'j'], ('a',), 5), 'okeys-val')


def time_struct():
    import time as _time
    return _time.struct_time


def exercise_spec(sp, io, site, tape, probes):
    """Use a treespec that loading accepted through (nearly) every method.  Exceptions are fine."""
    def attempt(name, fn):
        io.progress({'site': '%s/%s' % (site, name), 'tape': tape.values})
        try:
            fn()
            probes['state-use:ok'] += 1
        except RecursionError:
            probes['state-use:exc'] += 1
        except BaseException as e:  # noqa: BLE001
            if isinstance(e, (KeyboardInterrupt, SystemExit)):
                raise
            probes['state-use:exc'] += 1

    n = [0]

    def nl():
        n[0] = sp.num_leaves
    attempt('num_leaves', nl)
    k = max(0, min(n[0] if isinstance(n[0], int) else 0, 5000))
    attempt('repr', lambda: repr(sp))
    attempt('hash', lambda: hash(sp))
    attempt('eq', lambda: (sp == sp, sp != optree.tree_structure([0])))
    attempt('counts', lambda: (sp.num_nodes, sp.num_children, sp.kind, sp.type, len(sp), sp.none_is_leaf, sp.namespace))
    attempt('paths', sp.paths)
    attempt('accessors', sp.accessors)
    attempt('entries', sp.entries)
    attempt('children', sp.children)
    attempt('child0', lambda: sp.child(0))
    attempt('child-1', lambda: sp.child(-1))
    attempt('entry0', lambda: sp.entry(0))
    attempt('one_level', sp.one_level)
    attempt('is_leaf', lambda: (sp.is_leaf(), sp.is_leaf(strict=False), sp.is_one_level()))
    attempt('unflatten', lambda: sp.unflatten(list(range(k))))
    attempt('unflatten_iter', lambda: sp.unflatten(iter(range(k))))
    attempt('walk', lambda: sp.walk(list(range(k)), lambda tp, meta, ch: ch, None))
    attempt('traverse', lambda: sp.traverse(list(range(k)), lambda ch: list(ch), None))
    attempt('compose', lambda: repr(sp.compose(sp)) if k < 60 else None)
    attempt('compose_other', lambda: repr(optree.tree_structure([0, (1, 2)]).compose(sp)))
    attempt('is_prefix', lambda: (sp.is_prefix(sp), sp.is_suffix(sp), sp <= sp, sp < sp))
    attempt('common_suffix', lambda: sp.broadcast_to_common_suffix(sp))
    attempt('common_suffix_other', lambda: optree.tree_structure([0, 1]).broadcast_to_common_suffix(sp))
    attempt('flatten_up_to', lambda: sp.flatten_up_to([0, (1, 2), {'a': 3}]))
    attempt('transform', lambda: repr(optree.treespec_transform(sp, lambda x: x, lambda x: x)))
    attempt('pickle-again', lambda: pickle.loads(pickle.dumps(sp)))
    attempt('copy', lambda: (copy.copy(sp), copy.deepcopy(sp)))
    attempt('getstate', sp.__getstate__)
    attempt('from_collection', lambda: repr(optree.treespec_from_collection([sp, {'k': sp}])))
    attempt('tuple-of', lambda: repr(optree.treespec_tuple([sp, sp])))
    attempt('transpose', lambda: optree.tree_transpose(sp, optree.tree_structure((0, 0)), sp.unflatten([(i, i) for i in range(k)])))
    attempt('gc', lambda: gc.collect())


def run_state(job, io):
    tape = Tape(replay=job['tape']) if 'tape' in job else Tape(seed=derive_seed(job.get('seed', 0), PROPERTY, 'st', job['i']))
    violations, keys, probes = [], set(), collections.Counter()
    reg = Registry()
    ns = tape.choice(('ns', ''), 'st-ns')
    n_loaded = 0
    try:
        for cls in U.CUSTOM_CLASSES[:3]:
            reg.register(cls, ns if ns else GLOBAL, style=tape.draw(3, 'style'))
        ctx = gen.swarm_ctx(tape)
        n_rounds = 2 + tape.draw(4, 'st-rounds')
        for r in range(n_rounds):
            tree = gen.gen_tree(tape, 2 + tape.draw(16, 'st-budget'), ctx)
            nil = bool(tape.draw(2, 'st-nil'))
            spec = optree.tree_structure(tree, none_is_leaf=nil, namespace=ns)
            state = spec.__getstate__()
            nodes = [list(n) for n in state[0]]
            how = tape.choice(STATE_CORRUPTIONS, 'st-how')
            probes['state:' + how] += 1
            detail = how
            loader = None
            if how == 'field':
                j = tape.draw(len(nodes), 'st-node') if tape.draw(3, 'st-root') else len(nodes) - 1
                fi = tape.draw(len(STATE_FIELDS), 'st-field')
                if fi < len(nodes[j]):
                    nodes[j][fi] = corrupt_value(tape, fi, nodes[j][fi])
                detail = 'field:' + STATE_FIELDS[fi]
                if tape.draw(4, 'st-second') == 3:  # a second field of the same node, so that pairs of counts stay "consistent"
                    fi2 = tape.draw(len(STATE_FIELDS), 'st-field2')
                    if fi2 < len(nodes[j]):
                        nodes[j][fi2] = corrupt_value(tape, fi2, nodes[j][fi2])
            elif how == 'drop-node':
                del nodes[tape.draw(len(nodes), 'st-node')]
            elif how == 'dup-node':
                j = tape.draw(len(nodes), 'st-node')
                nodes.insert(j, list(nodes[j]))
            elif how == 'swap-nodes':
                a, b = tape.draw(len(nodes), 'st-a'), tape.draw(len(nodes), 'st-b')
                nodes[a], nodes[b] = nodes[b], nodes[a]
            elif how == 'truncate':
                nodes = nodes[:tape.draw(len(nodes), 'st-cut')]
            elif how == 'empty':
                nodes = []
            elif how == 'legacy-layout':
                # not a corruption: the 7-field node layout of older releases, which the loader still accepts (no hidden
                # insertion-order list on dict / defaultdict nodes); everything must work on what it loads
                nodes = [n[:7] for n in nodes]
            elif how == 'node-width':
                j = tape.draw(len(nodes), 'st-node')
                nodes[j] = nodes[j][:tape.draw(9, 'st-width')] if tape.draw(2, 'st-grow') else nodes[j] + [None]
            if how == 'flag':
                new_state = (state[0], tape.choice((not state[1], None, 2, 'x'), 'st-flag'), tape.choice((state[2], 'other', '', None, 5), 'st-nsval'))
            else:
                new_state = (tuple(tuple(n) for n in nodes), state[1], state[2])
            if how in ('bytes-flip', 'bytes-truncate'):
                blob = bytearray(pickle.dumps(spec, protocol=tape.choice((2, 3, 4, 5), 'st-proto')))
                if how == 'bytes-flip':
                    for _ in range(1 + tape.draw(2, 'st-nflip')):
                        pos = tape.draw(len(blob), 'st-pos')
                        blob[pos] ^= 1 << tape.draw(8, 'st-bit')
                else:
                    del blob[tape.draw(len(blob), 'st-cutb'):]

                def loader(blob=bytes(blob)):
                    return pickle.loads(blob)
            site = 'state:%s' % detail
            io.progress({'site': site + '/load', 'tape': tape.values})
            sp = None
            try:
                if loader is not None:
                    sp = loader()
                else:
                    sp = optree.PyTreeSpec.__new__(optree.PyTreeSpec)  # exactly what the unpickler does: new object, then its state
                    sp.__setstate__(new_state)
                oc = 'loaded'
            except RecursionError:
                oc = 'rejected'
            except BaseException as e:  # noqa: BLE001
                if isinstance(e, (KeyboardInterrupt, SystemExit)):
                    raise
                oc = 'rejected'
            probes['state-load:' + oc] += 1
            keys.add('st|%s|%s' % (detail, oc))
            if oc == 'loaded' and type(sp).__name__ == 'PyTreeSpec':
                n_loaded += 1
                exercise_spec(sp, io, site, tape, probes)
            del sp
            # whatever happened to the corrupted state, the genuine one still loads (nothing the loader keeps between calls
            # may outlive a refused or a garbage load)
            try:
                again = pickle.loads(pickle.dumps(spec))
                healthy = again == spec and repr(again) == repr(spec)
            except Exception as e:  # noqa: BLE001
                healthy = False
                again = '%s: %s' % (type(e).__name__, e)
            if not healthy and len(violations) < 6:
                violations.append({'cls': 'after-effect', 'site': site, 'msg': 'after loading a corrupted state (%s) the intact pickle of %r no longer round-trips: %r' % (oc, spec, again)})
    finally:
        reg.unregister_all()
    dig = hashlib.sha256(repr(sorted(keys)).encode()).hexdigest()
    out = {'digest': dig, 'violations': violations, 'keys': sorted(keys), 'steps': n_rounds, 'probes': dict(probes),
           'faults_cfg': {'stored-state': 1}, 'faults_fired': {'stored-state': n_rounds},
           'sample': None, 'extra': {'state_corruptions': n_rounds, 'state_corruptions_accepted': n_loaded}}
    if job.get('_min') or job.get('_stream_tape'):
        out['tape'] = tape.values
    return out


def run_job(job, io):
    kind = job.get('kind', 'reentry')
    if kind == 'depth':
        return run_depth(job, io)
    if kind == 'confusion':
        return run_confusion(job, io)
    if kind == 'state':
        return run_state(job, io)
    return run_reentry(job, io)


def classify_abnormal(out):
    prog = out.get('progress') or {}
    site = prog.get('site', '?') if isinstance(prog, dict) else '?'
    kind = out['abnormal']
    if kind == 'hang':
        return {'cls': 'hang', 'site': site, 'msg': (out.get('stderr') or '')[-2500:]}
    return {'cls': kind, 'site': site, 'msg': (out.get('stderr') or '')[-3500:]}
