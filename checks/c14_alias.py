"""C14 — treespecs are immutable values independent of their source tree and registry.

Engine ``alias``: a stateful single-task run keeps a pool of live treespecs, each with an
*observation snapshot*; tape-generated histories mutate source trees, mutate every list the treespec
handed out, use treespecs as operands of succeeding and failing operations, change the registry,
free trees and inject collections.  After every step every live treespec must still give the same
observation, and every argument of the step must be unchanged.
"""
from __future__ import annotations

import collections
import copy
import gc
import hashlib
import pickle
import warnings
import weakref
from collections import OrderedDict, defaultdict, deque

import optree

from optsim import gen
from optsim import universe as U
from optsim.same import same
from optsim.scenario import GLOBAL, OPS, OP_NAMES, Registry, Scn, clone, py_children, walk
from optsim.scenario import outcome as run_outcome
from optsim.tape import Tape, derive_seed

PROPERTY = 'C14'
LEVEL = 'exploration'
RULE = ('seeded histories (<= 30 steps, <= 8 live treespecs) over step kinds {create via flatten/structure/with_path/'
        'children/child/one_level/transform/compose/common_suffix/pickle/constructors, mutate source container, mutate '
        'handed-out list, use as operand (incl. failing operations), unregister/re-register, drop tree, gc, cycle}; '
        'every step is followed by re-observation of every live treespec and comparison of the step\'s arguments with '
        'their pre-step clones. distinct = distinct (producer route, step kind, detail, outcome) tuples; non-trivial = the '
        'step touched an object a live treespec was derived from or is an operand')
ASSUMPTIONS = [
    'observation = repr, hash, paths, accessors, entries, children reprs, counts, unflatten(sentinels) incl. which '
    'registration built each custom node; all taken with instrumentation hooks off',
    're-registration with *different* callables must not change an existing treespec (it keeps its own registration)',
    'leaf independence is checked with weak references to Leaf objects after all strong references held by the '
    'scenario are dropped',
    'GIL build only; single task (the property has no schedule dimension)',
]
REAL_VS_STUB = {
    'real': ['optree C++ engine (hooks build of the working tree)', 'optree Python layer', 'CPython gc / weakref / pickle'],
    'stub_or_simulator_owned': ['user flatten/unflatten callables (universe.Funcs)', 'GC timing (disabled; injected as a step)',
                                'history of mutations / registry changes (choice tape)'],
}
EXPECTED_PROBES = ('run-under-insertion-order', 'step:catalog', 'cycle-reclaimed:custom-metadata-childless', 'cycle-reclaimed:custom-entries', 'cycle-reclaimed:dict-key', 'cycle-reclaimed:defaultdict-factory', 'cycle-reclaimed:namedtuple-class', 'step:create', 'step:mutate_source', 'step:mutate_handout', 'step:operand', 'step:registry', 'step:drop_tree',
                   'step:gc', 'step:cycle', 'operand:failed', 'operand:ok', 'leaf-release-checked', 'cycle-reclaimed')

ROUTES = ('dataclass', 'dataclass', 'flatten', 'structure', 'with_path', 'with_accessor', 'child', 'children', 'one_level', 'transform', 'compose',
          'common_suffix', 'pickle', 'deepcopy', 'ctor_tuple', 'ctor_dict', 'from_collection', 'iter_rebuild')


import optree.dataclasses as _odc  # noqa: E402


@_odc.dataclass(namespace='ns')
class DC:
    """Importable (picklable) node whose flatten / unflatten functions are supplied by optree.dataclasses; registered once, in
    the zygote, so every run starts with it."""
    x: object
    y: object = None
    name: str = _odc.field(default='n', pytree_node=False)


def tier_config(tier):
    if tier == 'thorough':
        return {'budget_s': 600, 'flavours': ['hooks'], 'run_timeout': 60, 'determinism_sample': 24}
    return {'budget_s': 50, 'flavours': ['hooks'], 'run_timeout': 60, 'determinism_sample': 8}


def jobs(tier, seed, flavours):
    i = 0
    while True:
        yield {'i': i, 'seed': seed}
        i += 1


def warmup():
    class IO:
        def progress(self, o):
            pass
    found = []
    for i in range(5):
        found.extend(run_job({'i': i, 'seed': 12345}, IO()).get('violations') or [])  # what a warm-up history finds counts
        if found:
            break
    return found


class Entry:
    __slots__ = ('spec', 'obs', 'tree', 'leaves', 'route', 'sentinels', 'born_changed', 'entry_type_refs')

    def __init__(self, spec, tree, leaves, route):
        self.spec = spec
        self.tree = tree
        self.leaves = leaves
        self.route = route
        self.sentinels = [U.Leaf(10000 + i) for i in range(spec.num_leaves)]
        # the FIRST observation uses other leaves than the later ones, so that state written into the treespec by an unflatten
        # (e.g. into its metadata) shows up as a difference between observations
        first = observe(spec, [U.Leaf(15000 + i) for i in range(spec.num_leaves)])
        self.born_changed = first['changed-by-unflatten']
        self.obs = observe(spec, self.sentinels)
        # path entry classes that only their registration keeps alive: a live treespec must keep them alive too
        self.entry_type_refs = []
        try:
            for t in {type(en) for acc in spec.accessors() for en in acc}:
                if t.__name__.startswith('FreshEntry'):
                    self.entry_type_refs.append((t.__name__, weakref.ref(t)))
            t = None
        except Exception:  # noqa: BLE001
            pass


_FRESH_N = [0]


def fresh_entry_type(tape):
    """None (default entry type), the module-level hook entry type, or a path entry class created for this one registration and
    referenced by NOTHING but the registration (and, through the registration record, by the treespecs made with it)."""
    k = tape.draw(4, 'entry-type')
    if k < 2:
        return None
    if k == 2:
        return U.HookEntry
    _FRESH_N[0] += 1
    return type('FreshEntry%d' % _FRESH_N[0], (U.HookEntry,), {'__slots__': ()})


def built_by(tree):
    return [getattr(x, 'built_by', None) for x in walk(tree) if isinstance(x, U.Node)]


def observe(spec, sentinels):
    # unflatten is itself an operation that must not change the treespec: look before and after it
    pre = (repr(spec), hash(spec), repr(spec.paths()))
    try:
        rebuilt = spec.unflatten(sentinels)
        un = (gen.describe(rebuilt), built_by(rebuilt))
    except Exception as e:  # noqa: BLE001
        un = ('unflatten raised', type(e).__name__)
    post = (repr(spec), hash(spec), repr(spec.paths()))
    ch = spec.children()
    return {
        'changed-by-unflatten': None if pre == post else 'repr %s -> %s' % (pre[0], post[0]),
        'repr': repr(spec), 'str': str(spec), 'hash': hash(spec), 'paths': repr(spec.paths()), 'accessors': repr(spec.accessors()),
        'entries': repr(spec.entries()), 'children': [repr(c) for c in ch], 'child': [repr(spec.child(i)) for i in range(len(ch))],
        'one_level': repr(spec.one_level()), 'counts': (spec.num_leaves, spec.num_nodes, spec.num_children),
        'meta': (spec.none_is_leaf, spec.namespace, repr(spec.kind), getattr(spec.type, '__name__', None)),
        'entry': [repr(spec.entry(i)) for i in range(len(ch))], 'unflatten': un, 'self_eq': spec == spec,
        'up_to_self': up_to_self(spec, sentinels),
    }


def up_to_self(spec, sentinels):
    """A treespec accepts the tree it builds itself and hands its leaves back, whatever the registry looks like NOW: the kinds
    of its nodes were decided when it was made."""
    if 'CustomTreeNode(' in repr(spec):
        # a CUSTOM node is matched against the registration that is live NOW (pointer and metadata): once its type was
        # unregistered or registered anew the treespec refuses every tree at that node.  A refusal pairs nothing wrongly and the
        # property does not promise acceptance; only the built-in kinds have no such dependence, so only they are observed here
        return 'n/a: custom node'
    try:
        rebuilt = spec.unflatten(sentinels)
    except Exception as e:  # noqa: BLE001
        return ('unflatten raised', type(e).__name__)
    try:
        got = spec.flatten_up_to(rebuilt)
    except Exception as e:  # noqa: BLE001
        return ('flatten_up_to raised', type(e).__name__, str(e)[:80])
    return ('ok', len(got) == len(sentinels) and all(a is b for a, b in zip(got, sentinels)))


def diff_obs(a, b):
    for k in a:
        if a[k] != b[k]:
            return '%s: %r -> %r' % (k, a[k], b[k])
    return None


def run_job(job, io):
    tape = Tape(replay=job['tape']) if 'tape' in job else Tape(seed=derive_seed(job.get('seed', 0), PROPERTY, job['i']))
    # one run in three happens entirely inside an insertion-ordered block: key lists are then stored in insertion order, so an
    # operation that (re)sorts a list it does not own changes a treespec for good, where in sorted mode the sort is a no-op
    mode = tape.draw(3, 'dict-order-mode')
    if mode == 2:
        with optree.dict_insertion_ordered(True, namespace='ns'):
            out = _run_body(job, io, tape)
        out.setdefault('probes', {})['run-under-insertion-order'] = 1
        return out
    return _run_body(job, io, tape)


def _run_body(job, io, tape):
    U.HOOK = None
    warnings.simplefilter('ignore', UserWarning)  # (re-)registering a namedtuple / struct-sequence class warns; one run = one forked child
    violations, keys, probes = [], set(), collections.Counter()
    oplog = []
    reg = Registry()
    ns = 'ns'
    kwd = {'namespace': ns}
    n_custom = 1 + tape.draw(4, 'n-custom')
    kept_lists = []  # children / entries lists that custom flatten functions handed to the engine
    for cls in U.CUSTOM_CLASSES[:n_custom]:
        f0 = reg.register(cls, ns, style=tape.draw(4, 'style'), path_entry_type=fresh_entry_type(tape))
        f0.keep = kept_lists
        f0.keep_entries = kept_lists
    ctx = gen.swarm_ctx(tape, custom_classes=U.CUSTOM_CLASSES[:n_custom])
    pool = []
    weak_checks = []

    def viol(cls, site, msg):
        if len(violations) < 6:
            violations.append({'cls': cls, 'site': site, 'msg': '%s | history=%s' % (msg, oplog[-8:])})

    def check_all(site):
        for e in pool:
            try:
                now = observe(e.spec, e.sentinels)
            except BaseException as ex:  # noqa: BLE001
                viol('observe-raised', site, 'observing a live treespec (route %s) raised %s: %s' % (e.route, type(ex).__name__, ex))
                continue
            d = diff_obs(e.obs, now)
            if d:
                viol('spec-changed', site, 'treespec made via %s changed: %s' % (e.route, d))
                e.obs = now
            for tname, ref in e.entry_type_refs:
                if ref() is None:
                    viol('payload-freed', site, 'the path entry class %s of a LIVE treespec (made via %s) was freed: the registration record the treespec shares '
                         'no longer owns it' % (tname, e.route))
                    e.entry_type_refs = []
                    break

    def new_tree():
        nil = bool(tape.draw(2, 'nil'))
        tree = gen.gen_tree(tape, 2 + tape.draw(16, 'budget'), ctx)
        return tree, {'none_is_leaf': nil, 'namespace': ns}

    def add(spec, tree, leaves, route):
        if len(pool) >= 8:
            pool.pop(tape.draw(len(pool), 'evict'))
        ent = Entry(spec, tree, leaves, route)
        if ent.born_changed or ent.obs['changed-by-unflatten']:
            viol('spec-changed', 'unflatten:%s' % route.split('-')[0], 'unflatten changed the treespec it was called on (made via %s): %s' % (route, ent.born_changed or ent.obs['changed-by-unflatten']))
        pool.append(ent)

    def pick():
        return pool[tape.draw(len(pool), 'pick')] if pool else None

    n_steps = 4 + tape.draw(27, 'n-steps')
    steps = 0
    e = None
    for _ in range(n_steps):
        kind = tape.weighted([(5, 'create'), (4, 'mutate_source'), (4, 'mutate_handout'), (5, 'operand'), (2, 'registry'),
                              (1, 'drop_tree'), (2, 'gc'), (1, 'cycle'), (2, 'catalog')], 'step')
        if not pool and kind not in ('cycle', 'catalog'):
            kind = 'create'
        steps += 1
        probes['step:' + kind] += 1
        site = kind
        detail = ''
        outcome = 'ok'
        try:
            if kind == 'create':
                route = tape.choice(ROUTES, 'route')
                detail = route
                site = 'create:' + route
                io.progress({'site': site, 'tape': tape.values})
                src = pick()
                tree, kw = new_tree()
                before = clone(tree)
                leaves = None
                if route == 'dataclass':
                    # a node kind whose flatten / unflatten functions are supplied by optree itself (optree.dataclasses)
                    inner = DC(ctx.leaf(), [ctx.leaf(), tree], name='meta-%d' % tape.draw(3, 'dc-name'))
                    tree = {'d': inner, 'e': DC(ctx.leaf(), None)} if tape.draw(2, 'dc-wrap') else inner
                    before = clone(tree)
                    leaves, spec = optree.tree_flatten(tree, **kw)
                    inner = None
                elif route == 'flatten':
                    leaves, spec = optree.tree_flatten(tree, **kw)
                elif route == 'structure':
                    spec = optree.tree_structure(tree, **kw)
                elif route == 'with_path':
                    _, leaves, spec = optree.tree_flatten_with_path(tree, **kw)
                elif route == 'with_accessor':
                    _, leaves, spec = optree.tree_flatten_with_accessor(tree, **kw)
                elif route == 'iter_rebuild':
                    leaves = list(optree.tree_iter(tree, **kw))
                    spec = optree.tree_structure(tree, **kw)
                elif route in ('child', 'children', 'one_level') and src is not None:
                    tree = src.tree
                    before = clone(tree) if tree is not None else None
                    if route == 'one_level':
                        spec = src.spec.one_level()
                        if spec is None:
                            spec = src.spec
                    else:
                        ch = src.spec.children()
                        spec = (ch[tape.draw(len(ch), 'ci')] if route == 'children' else src.spec.child(tape.draw(len(ch), 'ci'))) if ch else src.spec
                elif route == 'transform' and src is not None:
                    spec = src.spec.transform(lambda s: s, lambda s: optree.treespec_tuple([s, s], none_is_leaf=src.spec.none_is_leaf, namespace=ns) if tape.draw(3, 'tf') == 0 else s)
                elif route == 'compose' and src is not None:
                    inner = optree.tree_structure(tree, none_is_leaf=src.spec.none_is_leaf, namespace=ns)
                    spec = src.spec.compose(inner)
                elif route == 'common_suffix' and src is not None:
                    # a suffix pair that matches: src vs src composed with a small inner structure
                    inner = optree.tree_structure((0, [0]), none_is_leaf=src.spec.none_is_leaf, namespace=ns)
                    spec = src.spec.broadcast_to_common_suffix(src.spec.compose(inner))
                elif route == 'pickle' and src is not None:
                    spec = pickle.loads(pickle.dumps(src.spec, protocol=2 + tape.draw(4, 'proto')))
                    tree = src.tree
                    before = clone(tree) if tree is not None else None
                elif route == 'deepcopy' and src is not None:
                    spec = copy.deepcopy(src.spec) if tape.draw(2, 'dc') else copy.copy(src.spec)
                    tree = src.tree
                    before = clone(tree) if tree is not None else None
                elif route == 'ctor_tuple' and src is not None:
                    spec = optree.treespec_tuple([src.spec, src.spec], none_is_leaf=src.spec.none_is_leaf, namespace=ns)
                elif route == 'ctor_dict' and src is not None:
                    kwc = {'none_is_leaf': src.spec.none_is_leaf, 'namespace': ns}
                    which_ctor = tape.draw(7, 'ctor-kind')
                    sp0 = src.spec
                    if which_ctor == 0:
                        arg = {'z': sp0, 'a': sp0}
                        snap = list(arg.items())
                        spec = optree.treespec_dict(arg, c=sp0, **kwc)
                        now = list(arg.items())
                    elif which_ctor == 1:
                        arg = OrderedDict([('z', sp0), ('a', sp0)])
                        snap = list(arg.items())
                        spec = optree.treespec_ordereddict(arg, c=sp0, **kwc)
                        now = list(arg.items())
                    elif which_ctor == 2:
                        arg = {'z': sp0, 'a': sp0}
                        snap = list(arg.items())
                        spec = optree.treespec_defaultdict(int, arg, c=sp0, **kwc)
                        now = list(arg.items())
                    elif which_ctor == 3:
                        arg = [sp0, sp0]
                        snap = list(arg)
                        spec = optree.treespec_list(arg, **kwc)
                        now = list(arg)
                    elif which_ctor == 4:
                        arg = deque([sp0, sp0], maxlen=5)
                        snap = (list(arg), arg.maxlen)
                        spec = optree.treespec_deque(arg, **kwc)
                        now = (list(arg), arg.maxlen)
                    elif which_ctor == 5:
                        arg = defaultdict(list, {'z': sp0, 'a': sp0})
                        snap = (list(arg.items()), arg.default_factory)
                        spec = optree.treespec_from_collection(arg, **kwc)
                        now = (list(arg.items()), arg.default_factory)
                    else:
                        arg = {'z': sp0, 'a': sp0}
                        snap = list(arg.items())
                        spec = optree.treespec_dict(arg, **kwc)
                        now = list(arg.items())
                    detail = 'ctor_dict/%d' % which_ctor
                    def _flat(x):
                        items = x if isinstance(x, list) else x[0]
                        extra = None if isinstance(x, list) else x[1]
                        return [(it[0], id(it[1])) if isinstance(it, tuple) else id(it) for it in items], extra
                    if _flat(snap) != _flat(now):
                        viol('input-mutated', site, 'a treespec constructor (variant %d) changed the collection it was given: %r -> %r' % (which_ctor, snap, now))
                    arg = snap = now = sp0 = None
                elif route == 'from_collection' and src is not None:
                    col = [src.spec, {'z': src.spec, 'k': src.spec}, deque([src.spec], maxlen=2)]
                    spec = optree.treespec_from_collection(col, none_is_leaf=src.spec.none_is_leaf, namespace=ns)
                    if len(col) != 3 or col[0] is not src.spec or list(col[1]) != ['z', 'k'] or col[1]['k'] is not src.spec or \
                            list(col[2]) != [src.spec] or col[2].maxlen != 2:
                        viol('input-mutated', site, 'treespec_from_collection changed the collection it was given: %r' % (col,))
                    col[1]['k'] = None
                    col.clear()
                else:
                    leaves, spec = optree.tree_flatten(tree, **kw)
                    route = route + '->flatten'
                d = same(before, tree) if tree is not None else None
                if d:
                    viol('input-mutated', site, 'source tree changed by %s: %s' % (route, d))
                add(spec, tree, leaves, route)
            elif kind == 'mutate_source' and kept_lists and tape.draw(4, 'ms-kept') == 3:
                # the user keeps the list his custom flatten function returned (children or path entries) and changes it later
                target = kept_lists[tape.draw(len(kept_lists), 'kept-i')]
                how = tape.choice(('append', 'clear', 'reorder', 'pop'), 'kept-how')
                detail = 'custom-returned-list:%s' % how
                site = 'mutate_source:' + detail
                io.progress({'site': site, 'tape': tape.values})
                if how == 'append':
                    target.append('junk')
                elif how == 'clear':
                    target.clear()
                elif how == 'reorder':
                    target.reverse()
                elif target:
                    target.pop()
                del kept_lists[:-24]
            elif kind == 'mutate_source':
                e = pick()
                conts = [x for x in walk(e.tree) if py_children(x) is not None and not isinstance(x, tuple)] if e.tree is not None else []
                if conts:
                    target = conts[tape.draw(len(conts), 'target')]
                    how = tape.choice(('append', 'pop', 'clear', 'reorder', 'replace', 'rotate'), 'how')
                    detail = '%s:%s' % (type(target).__name__, how)
                    site = 'mutate_source:' + detail
                    io.progress({'site': site, 'tape': tape.values})
                    mutate_container(target, how, ctx)
                else:
                    outcome = 'na'
            elif kind == 'mutate_handout':
                e = pick()
                which = tape.choice(('paths', 'accessors', 'entries', 'children', 'leaves', 'flatten_leaves', 'entries_elems', 'paths_elems', 'unflatten_result', 'unflatten_result',
                                     'walk_meta', 'getstate', 'setstate_input', 'one_level_children', 'one_level_children'), 'which')
                detail = which
                site = 'mutate_handout:' + which
                io.progress({'site': site, 'tape': tape.values})
                sp = e.spec
                if which in ('paths', 'accessors', 'entries', 'children'):
                    a = getattr(sp, which)()
                    b = getattr(sp, which)()
                    if a is b:
                        viol('not-fresh', site, '%s() returned the same list object twice' % which)
                    if not isinstance(a, list):
                        viol('not-fresh', site, '%s() returned %s' % (which, type(a).__name__))
                    a.append('junk')
                    a.reverse()
                    a.clear()
                elif which == 'unflatten_result':
                    # the tree a treespec rebuilds belongs to the caller: changing it must not reach back into the treespec
                    back = sp.unflatten([U.Leaf(40000 + i) for i in range(sp.num_leaves)])
                    for cont in [x for x in walk(back) if py_children(x) is not None and not isinstance(x, tuple)]:
                        mutate_container(cont, tape.choice(('append', 'pop', 'clear', 'reorder', 'replace', 'rotate'), 'ur-how'), ctx)
                        if isinstance(cont, U.Node) and isinstance(cont.aux, list):
                            cont.aux.append('junk')
                    back = cont = None
                elif which == 'one_level_children' and e.tree is not None:
                    # what tree_flatten_one_level hands out (children list, entries) belongs to the caller: scrambling it must leave
                    # the input tree and its inner containers as they were
                    snap_ol = clone(e.tree)
                    for node_ol in [x for x in walk(e.tree) if py_children(x) is not None][:6]:
                        try:
                            one_ol = optree.tree_flatten_one_level(node_ol, none_is_leaf=sp.none_is_leaf, namespace=ns)
                        except ValueError:
                            continue
                        ch_ol = one_ol[0]
                        if isinstance(ch_ol, list):
                            ch_ol.append('junk-child')
                            ch_ol.reverse()
                            del ch_ol[:1]
                        ch_ol = one_ol = None
                    d = same(snap_ol, e.tree)
                    if d:
                        viol('input-mutated', site, 'mutating the children list returned by tree_flatten_one_level changed the input tree: %s' % d)
                    snap_ol = node_ol = None
                elif which == 'walk_meta':
                    # walk() passes each node's metadata to f_node; for dict-like nodes that is a list the ENGINE made
                    handed = []
                    sp.walk([U.Leaf(41000 + i) for i in range(sp.num_leaves)], lambda tp, meta, ch: handed.append((tp, meta)), None)
                    for tp, meta in handed:
                        if tp in (dict, OrderedDict, defaultdict):
                            scramble(meta)
                    handed = meta = None
                elif which == 'getstate':
                    st = sp.__getstate__()
                    for n in st[0]:
                        if n[0] in (5, 7, 8):  # Dict, OrderedDict, DefaultDict: key lists made by the engine
                            scramble(n[2])
                            if len(n) > 7:
                                scramble(n[7])
                    st = n = None
                elif which == 'setstate_input':
                    # a state the CALLER owns: the treespec built from it must not change when the caller reuses its lists
                    st = sp.__getstate__()
                    mine = (tuple(tuple(fresh_lists(f) for f in n) for n in st[0]), st[1], st[2])
                    sp2 = optree.PyTreeSpec.__new__(optree.PyTreeSpec)
                    try:
                        sp2.__setstate__(mine)
                    except RuntimeError:
                        # a custom type the treespec mentions is no longer registered (a registry step unregistered it): loading refuses
                        probes['setstate-refused-unregistered'] += 1
                        sp2 = None
                    if sp2 is not None:
                        before = (repr(sp2), sp2.entries(), sp2.paths(), sp2 == sp, gen.describe(sp2.unflatten(list(range(sp2.num_leaves)))), repr(sp2.__getstate__()))
                        for n in mine[0]:
                            if n[0] in (5, 7, 8):
                                scramble(n[2])
                                if len(n) > 7:
                                    scramble(n[7])
                        try:
                            after = (repr(sp2), sp2.entries(), sp2.paths(), sp2 == sp, gen.describe(sp2.unflatten(list(range(sp2.num_leaves)))), repr(sp2.__getstate__()))
                        except Exception as ex2:  # noqa: BLE001
                            after = 'raised %s: %s' % (type(ex2).__name__, str(ex2)[:120])
                        if after != before:
                            viol('spec-changed', site, 'a treespec built by __setstate__ changed when the caller mutated the state lists it had passed in: %r -> %r' % (before[:2], after[:2] if isinstance(after, tuple) else after))
                        st = mine = sp2 = n = before = after = None
                elif which == 'entries_elems':
                    # entries may be mutable objects only if the user made them so; lists returned per node must be copies
                    for i in range(sp.num_children):
                        sp.entry(i)
                    ents = sp.entries()
                    ents[:] = [None] * len(ents)
                elif which == 'paths_elems':
                    ps = sp.paths()
                    for i in range(len(ps)):
                        ps[i] = ()
                elif which == 'leaves' and e.leaves is not None:
                    e.leaves.reverse()
                    e.leaves.append('junk')
                    e.leaves.clear()
                else:
                    if e.tree is not None:
                        lv, sp2 = optree.tree_flatten(e.tree, none_is_leaf=sp.none_is_leaf, namespace=ns)
                        lv2, _ = optree.tree_flatten(e.tree, none_is_leaf=sp.none_is_leaf, namespace=ns)
                        if lv is lv2:
                            viol('not-fresh', site, 'tree_flatten returned the same leaves list twice')
                        lv.clear()
                        d = same(lv2, optree.tree_leaves(e.tree, none_is_leaf=sp.none_is_leaf, namespace=ns))
                        if d:
                            viol('aliased-leaves', site, 'clearing one leaves list changed another: %s' % d)
            elif kind == 'operand':
                e = pick()
                o = pick()
                opn = tape.choice(('flatten_up_to', 'flatten_up_to_other', 'common_suffix_other', 'is_prefix', 'compare', 'compose',
                                   'transform_raise', 'transform_keep', 'transform_keep', 'repr_raise', 'hash_raise', 'eq_raise', 'unflatten_short', 'unflatten_long', 'unflatten', 'walk', 'traverse',
                                   'broadcast_prefix_other', 'broadcast_common_other', 'hash_eq', 'pickle', 'map_other', 'prefix_errors'), 'opn')
                detail = opn
                site = 'operand:' + opn
                io.progress({'site': site, 'tape': tape.values})
                sp = e.spec
                snap_tree = clone(e.tree) if e.tree is not None else None
                snap_otree = clone(o.tree) if o.tree is not None else None
                leaves_arg = [U.Leaf(20000 + i) for i in range(sp.num_leaves)]
                leaves_copy = list(leaves_arg)
                kw = {'none_is_leaf': sp.none_is_leaf, 'namespace': ns}
                try:
                    if opn == 'flatten_up_to' and e.tree is not None:
                        sp.flatten_up_to(e.tree)
                    elif opn == 'flatten_up_to_other' and o.tree is not None:
                        sp.flatten_up_to(o.tree)
                    elif opn == 'common_suffix_other':
                        sp.broadcast_to_common_suffix(o.spec)
                    elif opn == 'is_prefix':
                        sp.is_prefix(o.spec), o.spec.is_suffix(sp), sp.is_prefix(o.spec, strict=True)
                    elif opn == 'compare':
                        sp == o.spec, sp != o.spec, sp < o.spec, sp <= o.spec, sp > o.spec, sp >= o.spec
                    elif opn == 'compose':
                        sp.compose(o.spec)
                    elif opn == 'transform_raise':
                        cnt = [0]
                        lim = tape.draw(6, 'tr-k')

                        def f(s):
                            cnt[0] += 1
                            if cnt[0] > lim:
                                raise ZeroDivisionError
                            return s
                        sp.transform(f, f)
                    elif opn in ('repr_raise', 'hash_raise', 'eq_raise'):
                        # a read-only inspection that FAILS inside user code it reaches (a key / metadata dunder): the treespec must
                        # look the same afterwards (the observation below includes its repr and hash)
                        suffix = {'repr_raise': '__repr__', 'hash_raise': '__hash__', 'eq_raise': ('__eq__', '__ne__')}[opn]
                        nth = [1 + tape.draw(3, 'raise-nth')]

                        def failing(label):
                            if label.endswith(suffix):
                                nth[0] -= 1
                                if nth[0] == 0:
                                    raise ZeroDivisionError(label)
                        U.HOOK = failing
                        try:
                            if opn == 'repr_raise':
                                repr(sp), str(o.spec)
                            elif opn == 'hash_raise':
                                hash(sp), hash(o.spec)
                            else:
                                sp == pickle.loads(pickle.dumps(sp)), sp != o.spec
                        finally:
                            U.HOOK = None
                    elif opn == 'transform_keep':
                        # the one-level treespecs the callbacks receive belong to the caller once handed out, and what a callback
                        # returns is an operand: keeping them (and returning the very object received) must leave them intact
                        kept = []
                        mode = tape.draw(3, 'tk-mode')

                        def fk(s1):
                            kept.append((s1, repr(s1), s1.num_leaves, s1.num_nodes))
                            if mode == 0:
                                return s1
                            if mode == 1:
                                return kept[0][0] if kept[0][0].num_leaves == s1.num_leaves and kept[0][0].num_children == s1.num_children else s1
                            return optree.treespec_tuple(s1.children(), **{'none_is_leaf': sp.none_is_leaf}) if s1.kind == optree.PyTreeKind.TUPLE else s1
                        try:
                            sp.transform(fk, fk if tape.draw(2, 'tk-leaf') else None)
                        finally:
                            gc.collect()
                            for s1, r1, nl1, nn1 in kept:
                                try:
                                    now = (repr(s1), s1.num_leaves, s1.num_nodes)
                                except Exception as ex3:  # noqa: BLE001
                                    now = 'raised %s: %s' % (type(ex3).__name__, str(ex3)[:100])
                                if now != (r1, nl1, nn1):
                                    viol('operand-mutated', site, 'a treespec handed to / returned by a transform callback and kept by the caller changed: %s -> %r' % (r1, now))
                                    break
                            kept = s1 = None
                    elif opn == 'unflatten_short':
                        sp.unflatten(leaves_arg[:-1])
                    elif opn == 'unflatten_long':
                        sp.unflatten(leaves_arg + [None])
                    elif opn == 'unflatten':
                        sp.unflatten(leaves_arg)
                        optree.tree_unflatten(sp, iter(leaves_arg))
                    elif opn == 'walk':
                        sp.walk(leaves_arg, lambda t, m, c: c, lambda x: x)
                    elif opn == 'traverse':
                        sp.traverse(leaves_arg, lambda c: list(c), lambda x: x)
                    elif opn == 'broadcast_prefix_other' and e.tree is not None and o.tree is not None:
                        optree.tree_broadcast_prefix(e.tree, o.tree, **kw)
                    elif opn == 'broadcast_common_other' and e.tree is not None and o.tree is not None:
                        optree.tree_broadcast_common(e.tree, o.tree, **kw)
                    elif opn == 'hash_eq':
                        {sp: 1, o.spec: 2}
                    elif opn == 'pickle':
                        pickle.loads(pickle.dumps(sp))
                    elif opn == 'map_other' and e.tree is not None and o.tree is not None:
                        optree.tree_map(lambda *xs: xs[0], e.tree, o.tree, **kw)
                    elif opn == 'prefix_errors' and e.tree is not None and o.tree is not None:
                        optree.prefix_errors(e.tree, o.tree, **kw)
                    probes['operand:ok'] += 1
                except (ValueError, TypeError, ZeroDivisionError, RuntimeError, pickle.PicklingError) as ex:
                    outcome = 'raised'
                    probes['operand:failed'] += 1
                if leaves_arg != leaves_copy or any(a is not b for a, b in zip(leaves_arg, leaves_copy)):
                    viol('input-mutated', site, 'leaf sequence argument was modified')
                for tr, sn, nm in ((e.tree, snap_tree, 'tree'), (o.tree, snap_otree, 'other tree')):
                    if tr is not None:
                        d = same(sn, tr)
                        if d:
                            viol('input-mutated', site, 'operand %s changed: %s' % (nm, d))
            elif kind == 'registry':
                how = tape.choice(('unregister', 'reregister_same', 'reregister_other', 'register_global', 'register_ntlike'), 'rhow')
                detail = how
                site = 'registry:' + how
                io.progress({'site': site, 'tape': tape.values})
                live = [x for x in reg.live]
                if how == 'register_ntlike':
                    # a FIRST registration of a class that live treespecs only mention as a built-in node (namedtuple classes,
                    # a struct sequence type): new flattens see a custom node, the old treespecs stay what they were
                    cls = tape.choice((U.NT1, U.NT2, U.NT3, U.TNT, U.NTM, U.STRUCTSEQ_TYPES[0]), 'ntlike')
                    rns = (ns, GLOBAL)[tape.draw(2, 'ntlike-ns')]
                    with warnings.catch_warnings():
                        warnings.simplefilter('ignore')
                        try:
                            reg.register(cls, rns, style=(0, 2)[tape.draw(2, 'ntlike-style')])
                            probes['registered-ntlike'] += 1
                        except ValueError:
                            outcome = 'dup'
                elif live:
                    cls, rns, f = live[tape.draw(len(live), 'rcls')]
                    if how == 'unregister':
                        optree.unregister_pytree_node(cls, namespace=rns)
                        reg.live.remove((cls, rns, f))
                    elif how == 'reregister_same':
                        optree.unregister_pytree_node(cls, namespace=rns)
                        optree.register_pytree_node(cls, f.flatten, f.unflatten, namespace=rns)
                    elif how == 'reregister_other':
                        optree.unregister_pytree_node(cls, namespace=rns)
                        reg.live.remove((cls, rns, f))
                        st2 = tape.draw(4, 'style2')
                        if isinstance(cls, type) and issubclass(cls, tuple):
                            st2 = (0, 2)[st2 % 2]  # no custom entries: the default entry type of a namedtuple indexes by position
                        reg.register(cls, rns, style=st2, path_entry_type=fresh_entry_type(tape) if not issubclass(cls, tuple) else None)
                    else:
                        try:
                            st3 = tape.draw(4, 'style3')
                            if isinstance(cls, type) and issubclass(cls, tuple):
                                st3 = (0, 2)[st3 % 2]
                            with warnings.catch_warnings():
                                warnings.simplefilter('ignore')
                                reg.register(cls, GLOBAL, style=st3)
                        except ValueError:
                            outcome = 'dup'
                else:
                    cls = U.CUSTOM_CLASSES[tape.draw(n_custom, 'rcls2')]
                    reg.register(cls, ns, style=tape.draw(4, 'style4'), path_entry_type=fresh_entry_type(tape))
            elif kind == 'drop_tree':
                e = pick()
                site = 'drop_tree'
                io.progress({'site': site, 'tape': tape.values})
                if e.tree is not None and not any(o is not e and o.tree is e.tree for o in pool):
                    refs = [weakref.ref(x) for x in walk(e.tree) if isinstance(x, U.Leaf)]
                    uniq = e.tree
                    e.tree = None
                    e.leaves = None
                    # remove the generator context's strong references as well
                    ids = {id(r()) for r in refs}
                    ctx.leaves[:] = [x for x in ctx.leaves if id(x) not in ids]
                    others = [o for o in pool if o.tree is not None and o is not e]
                    shared = set()
                    for o in others:
                        shared.update(id(x) for x in walk(o.tree))
                    del uniq
                    kept_lists.clear()  # the harness's own copies of children lists hold leaves
                    gc.collect()
                    alive = [r() for r in refs if r() is not None and id(r()) not in shared]
                    probes['leaf-release-checked'] += 1
                    if alive:
                        viol('leaf-retained', site, '%d leaves of a freed tree are still alive while only treespecs remain (route %s)' % (len(alive), e.route))
                    del alive
                else:
                    outcome = 'na'
            elif kind == 'gc':
                site = 'gc'
                gc.collect()
            elif kind == 'catalog':
                # any public operation (succeeding or failing) must leave its input trees, leaf lists and operand
                # treespecs untouched: run a few operations of the shared catalogue on a fresh scenario
                scn = Scn(tape, ns='cat', budget=2 + tape.draw(14, 'cat-budget'))
                try:
                    snaps = [clone(scn.tree), clone(scn.tree2), clone(scn.prefix), clone(scn.other)]
                    leaves_before = list(scn.leaves)
                    specs = (scn.spec, scn.prefix_spec, scn.other_spec)
                    obs_before = [observe(sp_, [U.Leaf(30000 + i) for i in range(sp_.num_leaves)]) for sp_ in specs]
                    for _ in range(1 + tape.draw(4, 'cat-n')):
                        opn = tape.choice(OP_NAMES, 'cat-op')
                        detail = opn
                        site = 'catalog:' + opn
                        io.progress({'site': site, 'tape': tape.values})
                        got = run_outcome(OPS[opn], scn)
                        probes['operand:failed' if got[0] == 'exc' else 'operand:ok'] += 1
                        keys.add('catalog|%s|%s' % (opn, got[0]))
                        del got
                        for tr, sn, nm in zip((scn.tree, scn.tree2, scn.prefix, scn.other), snaps, ('tree', 'tree2', 'prefix', 'other')):
                            d = same(sn, tr)
                            if d:
                                viol('input-mutated', site, 'operation %s changed its input %s: %s' % (opn, nm, d))
                        if len(scn.leaves) != len(leaves_before) or any(a is not b for a, b in zip(scn.leaves, leaves_before)):
                            viol('input-mutated', site, 'operation %s changed the leaves list it was given' % opn)
                        for sp_, ob in zip(specs, obs_before):
                            d = diff_obs(ob, observe(sp_, [U.Leaf(30000 + i) for i in range(sp_.num_leaves)]))
                            if d:
                                viol('spec-changed', site, 'operation %s changed an operand treespec: %s' % (opn, d))
                        if violations:
                            break
                finally:
                    scn.close()
                    scn = snaps = specs = obs_before = leaves_before = None
            elif kind == 'cycle':
                route = tape.choice(CYCLE_ROUTES, 'cycle-route')
                nest = tape.draw(4, 'cycle-nest')
                detail = '%s/%d' % (route, nest)
                site = 'cycle:' + route
                io.progress({'site': site, 'tape': tape.values})
                marker = run_cycle(route, nest, tape, ctx)
                gc.collect()
                if marker is None:
                    outcome = 'na'
                elif marker() is not None:
                    viol('cycle-not-reclaimed', site, 'a treespec reachable only from its own %s (nesting %d) survived gc.collect()' % (route, nest))
                else:
                    probes['cycle-reclaimed'] += 1
                    probes['cycle-reclaimed:' + route] += 1
        except Exception as ex:  # noqa: BLE001
            if isinstance(ex, (ValueError, TypeError, RuntimeError)) and kind in ('create',):
                outcome = 'raised:' + type(ex).__name__
            else:
                raise
        touched_route = e.route if e is not None else '-'  # NB: never call dir()/locals() here: the frame's locals snapshot would keep trees alive
        # locals of a step must not keep trees / leaves / treespecs alive into the next step
        tree = before = leaves = spec = src = e = o = snap_tree = snap_otree = target = conts = a = b = None
        lv = lv2 = sp = sp2 = leaves_arg = leaves_copy = inner = col = ch = ents = ps = tr = sn = refs = node = box = f = None
        oplog.append('%s:%s:%s' % (kind, detail, outcome))
        check_all(site)
        keys.add('%s|%s|%s|%s' % (touched_route, kind, detail, outcome))
        if violations:
            break
    # every treespec must die with the pool (no hidden owners): weakrefs to specs not possible; check gc count stability
    pool.clear()
    reg.unregister_all()
    dig = hashlib.sha256(repr((oplog, [v['cls'] + v['site'] for v in violations])).encode()).hexdigest()
    out = {'digest': dig, 'violations': violations, 'keys': sorted(keys), 'steps': steps, 'probes': dict(probes),
           'faults_cfg': {'gc': 1, 'registry-drift': 1, 'mutate': 1}, 'faults_fired': {'gc': probes['step:gc'], 'registry-drift': probes['step:registry'],
                                                                                     'mutate': probes['step:mutate_source'] + probes['step:mutate_handout']},
           'sample': {'history': oplog} if job.get('i', 0) % 100 == 0 else None, 'extra': {'steps': steps}}
    if violations or job.get('_min') or job.get('_stream_tape'):
        out['tape'] = tape.values
        out['ops'] = oplog
    return out


CYCLE_ROUTES = ('custom-metadata', 'custom-metadata-childless', 'custom-entries', 'dict-key', 'odict-key', 'defaultdict-factory',
                'defaultdict-key', 'namedtuple-class', 'empty-namedtuple-class', 'two-specs')


class Box:
    """Hashable-by-identity object that will point back at the treespec that (indirectly) holds it."""

    def __call__(self):
        return 0


def scramble(x):
    """Mutate an engine-made key list (or the list inside a defaultdict's (factory, keys) tuple) the way a careless caller might."""
    if isinstance(x, list):
        x.append('junk-key')
        x.reverse()
    elif isinstance(x, tuple):
        for y in x:
            if isinstance(y, list):
                scramble(y)


def fresh_lists(x):
    if isinstance(x, list):
        return list(x)
    if isinstance(x, tuple) and any(isinstance(y, list) for y in x):
        return tuple(list(y) if isinstance(y, list) else y for y in x)
    return x


CYCLE_USE_FNS = {
    'getstate': lambda sp: sp.__getstate__(),
    'reduce': lambda sp: sp.__reduce_ex__(4),
    'dumps': lambda sp: pickle.dumps(sp),
    'copy': lambda sp: copy.copy(sp),
    'deepcopy': lambda sp: copy.deepcopy(sp),
    'repr': lambda sp: repr(sp),
    'hash': lambda sp: hash(sp),
    'eq': lambda sp: (sp == sp, sp != optree.treespec_leaf()),
    'inspect': lambda sp: (sp.paths(), sp.accessors(), sp.entries(), sp.children(), sp.one_level(), sp.type, sp.kind),
    'unflatten': lambda sp: sp.unflatten([0] * sp.num_leaves),
    'walk': lambda sp: (sp.walk([0] * sp.num_leaves, lambda tp, meta, ch: None, None), sp.traverse([0] * sp.num_leaves, lambda ch: None, None)),
    'compose': lambda sp: (sp.compose(sp), optree.treespec_tuple([sp, sp], namespace='cyc'), sp.broadcast_to_common_suffix(sp)),
    'transform': lambda sp: optree.treespec_transform(sp, lambda x: x, lambda x: x),
    'prefix': lambda sp: (sp.is_prefix(sp), sp.flatten_up_to(sp.unflatten([0] * sp.num_leaves))),
}
# the Python layer above the engine gets its turn too: whatever it builds internally for the TREE (treespecs, accessor lists,
# memo entries) must not outlive the call either
CYCLE_TREE_USE_FNS = {
    'tree:accessors': lambda t, ns: (optree.tree_accessors(t, namespace=ns), optree.tree_paths(t, namespace=ns)),
    'tree:flatten_with_accessor': lambda t, ns: optree.tree_flatten_with_accessor(t, namespace=ns),
    'tree:flatten_with_path': lambda t, ns: optree.tree_flatten_with_path(t, namespace=ns),
    'tree:map_with_accessor': lambda t, ns: (optree.tree_map_with_accessor(lambda a, x: x, t, namespace=ns), optree.tree_map_with_accessor_(lambda a, x: None, t, namespace=ns)),
    'tree:map_with_path': lambda t, ns: (optree.tree_map_with_path(lambda p, x: x, t, namespace=ns), optree.tree_map(lambda x: x, t, namespace=ns)),
    'tree:transpose_map': lambda t, ns: (optree.tree_transpose_map_with_accessor(lambda a, x: (x, x), t, namespace=ns), optree.tree_transpose_map(lambda x: (x, x), t, namespace=ns)),
    'tree:broadcast_map': lambda t, ns: (optree.tree_broadcast_map_with_accessor(lambda a, x, y: x, t, t, namespace=ns), optree.tree_broadcast_common(t, t, namespace=ns)),
    'tree:prefix_errors': lambda t, ns: (optree.prefix_errors(t, t, namespace=ns), optree.tree_broadcast_prefix(t, t, namespace=ns)),
    'tree:reductions': lambda t, ns: (optree.tree_reduce(lambda a, b: a, t, namespace=ns), optree.tree_all(t, namespace=ns), list(optree.tree_iter(t, namespace=ns))),
    'tree:one_level': lambda t, ns: optree.tree_flatten_one_level(t, namespace=ns),
}
CYCLE_USES = tuple(CYCLE_USE_FNS) + tuple(CYCLE_TREE_USE_FNS)
SPEC_PRODUCERS = (lambda t, ns: optree.tree_structure(t, namespace=ns), lambda t, ns: optree.tree_flatten(t, namespace=ns)[1],
                  lambda t, ns: optree.tree_flatten_with_path(t, namespace=ns)[2], lambda t, ns: optree.tree_flatten_with_accessor(t, namespace=ns)[2])


def run_cycle(route, nest, tape, ctx):
    """Build a treespec that is reachable only from an object it holds in one of its node payloads; return a weakref
    to that object (or None if the route is not applicable).  Everything else is dropped when this function returns."""
    box = Box()
    cyc_reg = Registry()
    ns = 'cyc'
    try:
        if route == 'custom-metadata':
            cyc_reg.register(U.CC, ns, style=tape.choice((0, 3), 'cstyle'))
            inner = U.CC([ctx.leaf(), [ctx.leaf()]], aux=box)
        elif route == 'custom-metadata-childless':
            cyc_reg.register(U.CC, ns, style=tape.choice((0, 1, 3), 'cstyle'))
            inner = U.CC([], aux=box)
        elif route == 'custom-entries':
            cyc_reg.register(U.CC, ns, style=4)
            inner = U.CC([ctx.leaf(), ctx.leaf()], aux=box)
        elif route == 'dict-key':
            inner = {box: ctx.leaf(), 'z': ctx.leaf()} if tape.draw(2, 'dk') else {box: ctx.leaf()}
        elif route == 'odict-key':
            inner = OrderedDict([('a', ctx.leaf()), (box, ctx.leaf())])
        elif route == 'defaultdict-factory':
            inner = defaultdict(box, {'k': ctx.leaf()}) if tape.draw(2, 'df') else defaultdict(box)
        elif route == 'defaultdict-key':
            inner = defaultdict(int, {box: ctx.leaf()})
        elif route == 'namedtuple-class':
            ntc = type('CycNT', (collections.namedtuple('CycNTBase', ['a', 'b']),), {'__slots__': (), 'box': box})
            inner = ntc(ctx.leaf(), ctx.leaf())
        elif route == 'empty-namedtuple-class':
            ntc = type('CycNT0', (collections.namedtuple('CycNT0Base', []),), {'__slots__': (), 'box': box})
            inner = ntc()
        elif route == 'two-specs':
            cyc_reg.register(U.CC, ns, style=0)
            inner = U.CC([ctx.leaf()], aux=box)
        else:
            return None
        tree = inner
        for lvl in range(nest):
            tree = ([ctx.leaf(), tree], (tree, None), {'w': tree}, deque([tree]))[(lvl + nest) % 4]
        spec = SPEC_PRODUCERS[tape.draw(len(SPEC_PRODUCERS), 'cycle-producer')](tree, ns)
        if route == 'two-specs':
            other = optree.treespec_tuple([spec, spec.child(0) if spec.num_children else spec], namespace=ns)
            box.spec = other
            box.again = [spec.children(), other]
        else:
            box.spec = spec
            box.again = [spec, box] if tape.draw(2, 'again') else None
        if tape.draw(3, 'via-child') == 0 and spec.num_children:
            box.extra = spec.children()  # treespecs derived from the cyclic one share the payload objects
        # the treespec has a life before it is dropped: operations that read its payload (and may park references to it
        # in a state tuple, a copy, a buffer) must not make it immortal
        for _ in range(tape.draw(4, 'cycle-uses')):
            use = tape.choice(CYCLE_USES, 'cycle-use')
            try:
                if use in CYCLE_TREE_USE_FNS:
                    CYCLE_TREE_USE_FNS[use](tree, ns)
                else:
                    CYCLE_USE_FNS[use](spec)
            except Exception:  # noqa: BLE001 - a Box is not hashable-by-value / picklable in every route; irrelevant here
                pass
        return weakref.ref(box)
    finally:
        cyc_reg.unregister_all()


def mutate_container(target, how, ctx):
    if isinstance(target, U.Node):
        target = target.children
    if isinstance(target, dict):
        ks = list(dict.keys(target))
        if how == 'append':
            target['new%d' % len(ks)] = ctx.leaf()
        elif how == 'pop' and ks:
            del target[ks[-1]]
        elif how == 'clear':
            target.clear()
        elif how in ('reorder', 'rotate') and ks:
            v = target.pop(ks[0])
            target[ks[0]] = v
        elif how == 'replace' and ks:
            target[ks[0]] = [ctx.leaf()]
    elif isinstance(target, (list, deque)):
        if how == 'append':
            target.append(ctx.leaf())
        elif how == 'pop' and target:
            target.pop()
        elif how == 'clear':
            target.clear()
        elif how == 'reorder':
            target.reverse()
        elif how == 'rotate' and target:
            if isinstance(target, deque):
                target.rotate(1)
            else:
                target.append(target.pop(0))
        elif how == 'replace' and target:
            target[0] = (ctx.leaf(), None)
