"""C13 — insertion-ordered dict mode is scoped to its namespace and with-block.

Engine ``dictmode``: a single task executes tape-generated block programs of
``dict_insertion_ordered(mode, namespace=N)`` blocks — nested, sibling, exited normally or by an
exception injected in the body / inside a flatten callback, and (only across different namespaces)
exited in non-LIFO order — against a stack-of-saved-flags model; every namespace is observed after
every step through the engine flag, the flatten family, the treespec constructors, the Python
registry lookup and a generated dict-bearing tree's round trip.
"""
from __future__ import annotations

import collections
import copy
import hashlib
import pickle
from collections import OrderedDict, defaultdict

import optree
from optree import _C

from optsim import gen
from optsim import universe as U
from optsim.same import same
from optsim.scenario import GLOBAL
from optsim.tape import Tape, derive_seed

PROPERTY = 'C13'
LEVEL = 'exploration'
RULE = ('seeded block programs (nesting depth <= 5, <= 14 blocks) over enter(True|False, N in {global sentinel, a, b}) / exit / '
        'raise-exit (exception thrown in the body, between nested blocks, or from a predicate called by a flatten inside the '
        'block) / non-LIFO exit across different namespaces; thorough also sweeps every well-nested program of <= 3 blocks over '
        'the 6-symbol enter alphabet. After every step every namespace in {"", a, b, unknown} is observed. distinct = distinct '
        '(mode-vector before, step, mode-vector after) transitions; non-trivial = the step changed or restored at least one flag, '
        'or was an exception exit')
ASSUMPTIONS = [
    'single task: the mode switch is documented as not thread-safe and the property excludes concurrency',
    'model: per-namespace flag; enter saves the namespace\'s own flag and sets it; exit restores the saved flag; effective mode of '
    'namespace X = flag[X] or flag[global]',
]
REAL_VS_STUB = {
    'real': ['optree engine mode set + flatten/iter/constructors', 'optree.registry.dict_insertion_ordered context manager',
             'Python registry lookup'],
    'stub_or_simulator_owned': ['block program (choice tape)', 'injected exceptions', 'predicate callbacks'],
}
EXPECTED_PROBES = ('carried-unflatten', 'registry-churn-in-block', 'enter-form:prebuilt', 'enter-form:decorator', 'raise-base-exception', 'raise-from-optree', 'enter', 'exit', 'raise-exit', 'raise-in-callback', 'non-lifo-exit', 'nested-depth>=3', 'false-inside-true',
                   'iterator-across-exit', 'observe')

V = _C._verif if hasattr(_C, '_verif') else None
OBS_NS = ('', 'a', 'b', 'unknown')
NS_CHOICES = (GLOBAL, 'a', 'b')


class Injected(Exception):
    pass


class InjectedBase(BaseException):
    """like KeyboardInterrupt / GeneratorExit: not an Exception subclass"""


INJECTED = (Injected, InjectedBase)


def _call_body(body):
    return body()


class _DecoratedBlock:
    """Adapter: run the body of a with-block inside a function that was decorated with dict_insertion_ordered(...).
    `with _DecoratedBlock(f):` cannot wrap a body lexically, so the block body is executed by a generator trick: __enter__
    starts the decorated call in a helper thread-free way by using the decorator's own context manager recreation."""

    def __init__(self, decorated_fn):
        # contextlib.ContextDecorator re-creates the manager on every call via _recreate_cm(); use exactly that object
        self.cm = decorated_fn.__wrapped__ and None
        self.fn = decorated_fn
        self.inner = None

    def __enter__(self):
        # the decorator is `with self._recreate_cm(): return func(...)`; reproduce it for a lexical block
        closure_cm = [c.cell_contents for c in (self.fn.__closure__ or ()) if hasattr(c.cell_contents, '_recreate_cm')]
        self.inner = closure_cm[0]._recreate_cm()
        return self.inner.__enter__()

    def __exit__(self, *exc):
        return self.inner.__exit__(*exc)


def tier_config(tier):
    if tier == 'thorough':
        return {'budget_s': 600, 'flavours': ['hooks'], 'run_timeout': 60, 'determinism_sample': 24}
    return {'budget_s': 45, 'flavours': ['hooks'], 'run_timeout': 60, 'determinism_sample': 8}


def jobs(tier, seed, flavours):
    if tier == 'thorough':
        import itertools
        for n in (1, 2, 3):
            for shape in SHAPES[n]:
                for syms in itertools.product(range(6), repeat=n):
                    for exc in range(n + 1):
                        yield {'i': -1, 'seed': seed, 'sweep': {'shape': shape, 'syms': list(syms), 'exc': exc}}
    i = 0
    while True:
        yield {'i': i, 'seed': seed}
        i += 1


# well-nested shapes of n blocks as parenthesis strings
SHAPES = {1: ['()'], 2: ['()()', '(())'], 3: ['()()()', '(())()', '()(())', '(()())', '((()))']}


def warmup():
    class IO:
        def progress(self, o):
            pass
    found = []
    for i in range(5):
        try:
            out = run_job({'i': i, 'seed': 99}, IO())
        except NotPristine as e:
            # an earlier warm-up program left a mode flag behind without noticing it itself
            found.append({'cls': 'not-restored', 'site': 'warmup-history', 'msg': str(e)[:1500]})
            break
        found.extend(out.get('violations') or [])
        if found:
            break
    if found:
        # leave nothing behind for the runs that are forked from this process
        for ns in ('', 'a', 'b'):
            _C.set_dict_insertion_ordered(False, ns)
    return found


# registrations that exist for the whole run (made by run_job, undone at its end): the table form of the Python-visible registry
# must keep listing them under every mode
CHURN_LIVE = {'a': (U.CB,), 'b': (U.CC,)}


class NotPristine(Exception):
    pass


def key_ns(ns):
    return '' if ns is GLOBAL else ns


def value_round_trip(viol, site, what, sp, ns):
    """"the results still round-trip": a treespec made under any mode is a complete value -- it survives pickle / copy
    unchanged and rebuilds a tree that flattens (in the namespace it was made with, mode unchanged) back to itself."""
    try:
        for how, again in (('pickle', pickle.loads(pickle.dumps(sp))), ('deepcopy', copy.deepcopy(sp)), ('copy', copy.copy(sp))):
            if again != sp or repr(again) != repr(sp) or again.entries() != sp.entries() or hash(again) != hash(sp):
                viol('round-trip', site, 'the treespec from %s changes through %s: %r -> %r' % (what, how, sp, again))
        n = sp.num_leaves
        tree = sp.unflatten(list(range(n)))
        lv, sp2 = optree.tree_flatten(tree, namespace=ns, none_is_leaf=sp.none_is_leaf)
        if lv != list(range(n)) or sp2 != sp:
            viol('round-trip', site, 'the treespec from %s does not round-trip through unflatten / flatten: %r -> %r, leaves %r' % (what, sp, sp2, lv))
    except Exception as e:  # noqa: BLE001
        viol('round-trip', site, 'the treespec from %s cannot be pickled / copied / unflattened: %s: %s' % (what, type(e).__name__, e))


class Model:
    def __init__(self):
        self.flags = {}

    def own(self, ns):
        return self.flags.get(ns, False)

    def eff(self, ns):
        return self.flags.get(ns, False) or self.flags.get('', False)

    def vector(self):
        return tuple((self.own(n), self.eff(n)) for n in OBS_NS)


PROBE_DICT = {'b': 1, 'a': 2, 'c': 3}
PROBE_KEYS_INS = ['b', 'a', 'c']
PROBE_KEYS_SORTED = ['a', 'b', 'c']


def _rec(rec, x):
    rec.append(x)
    return x


CALL_ORDER_FAMILY = (
    ('tree_map', lambda rec, t, ns: optree.tree_map(lambda x: _rec(rec, x), t, namespace=ns)),
    ('tree_map_', lambda rec, t, ns: optree.tree_map_(lambda x: _rec(rec, x), t, namespace=ns)),
    ('tree_map(two trees)', lambda rec, t, ns: optree.tree_map(lambda x, y: _rec(rec, x), t, t, namespace=ns)),
    ('tree_map_with_path', lambda rec, t, ns: optree.tree_map_with_path(lambda p, x: _rec(rec, x), t, namespace=ns)),
    ('tree_map_with_path_', lambda rec, t, ns: optree.tree_map_with_path_(lambda p, x: _rec(rec, x), t, namespace=ns)),
    ('tree_map_with_accessor', lambda rec, t, ns: optree.tree_map_with_accessor(lambda a, x: _rec(rec, x), t, namespace=ns)),
    ('tree_map_with_accessor_', lambda rec, t, ns: optree.tree_map_with_accessor_(lambda a, x: _rec(rec, x), t, namespace=ns)),
    ('tree_broadcast_map', lambda rec, t, ns: optree.tree_broadcast_map(lambda x, y: _rec(rec, x), t, t, namespace=ns)),
    ('tree_broadcast_map_with_path', lambda rec, t, ns: optree.tree_broadcast_map_with_path(lambda p, x, y: _rec(rec, x), t, t, namespace=ns)),
    ('tree_broadcast_map_with_accessor', lambda rec, t, ns: optree.tree_broadcast_map_with_accessor(lambda a, x, y: _rec(rec, x), t, t, namespace=ns)),
    ('tree_transpose_map', lambda rec, t, ns: optree.tree_transpose_map(lambda x: (_rec(rec, x), 0), t, namespace=ns)),
    ('tree_transpose_map_with_path', lambda rec, t, ns: optree.tree_transpose_map_with_path(lambda p, x: (_rec(rec, x), 0), t, namespace=ns)),
    ('tree_transpose_map_with_accessor', lambda rec, t, ns: optree.tree_transpose_map_with_accessor(lambda a, x: (_rec(rec, x), 0), t, namespace=ns)),
    ('tree_max(key)', lambda rec, t, ns: optree.tree_max(t, key=lambda x: _rec(rec, x), namespace=ns)),
    ('tree_min(key)', lambda rec, t, ns: optree.tree_min(t, key=lambda x: _rec(rec, x), namespace=ns)),
    ('tree_all', lambda rec, t, ns: rec.extend(optree.tree_leaves(optree.tree_map(lambda x: x, t, namespace=ns), namespace=ns)) if optree.tree_all(t, namespace=ns) else None),
    ('tree_iter', lambda rec, t, ns: rec.extend(optree.tree_iter(t, namespace=ns))),
    ('tree_flatten_with_path', lambda rec, t, ns: rec.extend(optree.tree_flatten_with_path(t, namespace=ns)[1])),
    ('tree_flatten_with_accessor', lambda rec, t, ns: rec.extend(optree.tree_flatten_with_accessor(t, namespace=ns)[1])),
    ('tree_paths', lambda rec, t, ns: rec.extend(_at_path(t, p) for p in optree.tree_paths(t, namespace=ns))),
    ('tree_accessors', lambda rec, t, ns: rec.extend(a(t) for a in optree.tree_accessors(t, namespace=ns))),
    ('tree_broadcast_prefix', lambda rec, t, ns: rec.extend(optree.tree_leaves(optree.tree_broadcast_prefix(t, t, namespace=ns), namespace=ns))),
    ('tree_broadcast_common', lambda rec, t, ns: rec.extend(optree.tree_leaves(optree.tree_broadcast_common(t, t, namespace=ns)[0], namespace=ns))),
    ('pytree.map', lambda rec, t, ns: optree.pytree.map(lambda x: _rec(rec, x), t, namespace=ns)),
    ('pytree.reduce', lambda rec, t, ns: optree.pytree.reduce(lambda acc, x: acc + [_rec(rec, x)] if isinstance(acc, list) else [_rec(rec, x)], t, [], namespace=ns)),
    ('pytree.max(key)', lambda rec, t, ns: optree.pytree.max(t, key=lambda x: _rec(rec, x), namespace=ns)),
    ('functools.reduce', lambda rec, t, ns: optree.functools.reduce(lambda acc, x: acc + [_rec(rec, x)], t, [], namespace=ns)),
)


def _at_path(t, p):
    for k in p:
        t = t[k]
    return t


def observe(model, viol, site, probes, extra_tree):
    probes['observe'] += 1
    U.HOOK = None
    vec = []
    for ns in OBS_NS:
        want_eff = model.eff(ns)
        want_own = model.own(ns)
        got_eff = _C.is_dict_insertion_ordered(ns)
        got_own = _C.is_dict_insertion_ordered(ns, inherit_global_namespace=False)
        if got_eff != want_eff or got_own != want_own:
            viol('flag-mismatch', site, 'namespace %r: engine says (own=%s, effective=%s), model (own=%s, effective=%s)' % (ns, got_own, got_eff, want_own, want_eff))
        vec.append((got_own, got_eff))
        want_keys = PROBE_KEYS_INS if want_eff else PROBE_KEYS_SORTED
        d = dict(PROBE_DICT)
        dd = defaultdict(int, PROBE_DICT)
        od = OrderedDict(PROBE_DICT)
        for name, tree in (('dict', d), ('defaultdict', dd)):
            leaves, spec = optree.tree_flatten(tree, namespace=ns)
            paths, leaves2, spec2 = optree.tree_flatten_with_path(tree, namespace=ns)
            it_leaves = list(optree.tree_iter(tree, namespace=ns))
            lv = optree.tree_leaves(tree, namespace=ns)
            accs = optree.tree_accessors(tree, namespace=ns)
            ctor = (optree.treespec_dict if name == 'dict' else lambda m, **kw: optree.treespec_defaultdict(int, m, **kw))(
                {k: optree.treespec_leaf() for k in PROBE_KEYS_INS}, namespace=ns)
            fc = optree.treespec_from_collection(type(tree)(tree) if name == 'dict' else defaultdict(int, {k: optree.treespec_leaf() for k in PROBE_KEYS_INS}), namespace=ns) if name == 'defaultdict' else \
                optree.treespec_from_collection({k: optree.treespec_leaf() for k in PROBE_KEYS_INS}, namespace=ns)
            want_leaves = [PROBE_DICT[k] for k in want_keys]
            got = {
                'flatten': (leaves, spec.entries()), 'with_path': (leaves2, [p[0] for p in paths]), 'iter': (it_leaves, want_keys),
                'leaves': (lv, want_keys), 'accessors': (want_leaves, [a.path[0] for a in accs]), 'ctor': (want_leaves, ctor.entries()),
                'from_collection': (want_leaves, fc.entries()), 'spec2': (want_leaves, spec2.entries()),
            }
            for how, (gl, gk) in got.items():
                if gl != want_leaves or list(gk) != want_keys:
                    viol('order-mismatch', site, '%s of a %s in namespace %r gives keys %r leaves %r; mode model says %s order' % (
                        how, name, ns, list(gk), gl, 'insertion' if want_eff else 'sorted'))
            back = optree.tree_unflatten(spec, leaves)
            if type(back) is not type(tree) or list(back.keys()) != PROBE_KEYS_INS or dict(back) != PROBE_DICT:
                viol('round-trip', site, '%s does not round-trip in namespace %r (mode %s): keys %r' % (name, ns, want_eff, list(back.keys())))
            if spec != spec2 or spec != ctor:
                viol('order-mismatch', site, 'treespecs of one %s obtained through flatten / with_path / constructor differ in namespace %r' % (name, ns))
            for how, sp in (('flatten', spec), ('with_path', spec2), ('constructor', ctor), ('from_collection', fc)):
                value_round_trip(viol, site, '%s of a %s in namespace %r under mode %s' % (how, name, ns, want_eff), sp, ns)
            # the treespec must carry what is needed to reproduce its own order: every entry point records the same
            # namespace (== treats '' as a wildcard, so compare the fields), and re-flattening in the RECORDED namespace
            # gives the same leaf order (this is what tree_transpose / tree_map with such a treespec rely on)
            spec3 = optree.tree_structure(tree, namespace=ns)
            accs_spec = optree.tree_flatten_with_accessor(tree, namespace=ns)[2]
            for how, other in (('with_path', spec2), ('structure', spec3), ('with_accessor', accs_spec)):
                if (other.namespace, repr(other), hash(other)) != (spec.namespace, repr(spec), hash(spec)):
                    viol('order-mismatch', site, 'treespec of a %s from tree_flatten_%s differs from tree_flatten\'s in namespace %r under mode %s: %r vs %r' % (
                        name, how, ns, want_eff, other, spec))
                again = optree.tree_flatten(tree, namespace=other.namespace)
                if again[0] != leaves or again[1] != other:
                    viol('round-trip', site, 're-flattening a %s in the namespace recorded by its %s treespec (%r) gives leaves %r instead of %r' % (
                        name, how, other.namespace, again[0], leaves))
        # ---- operations that PAIR two dict-bearing trees must pair children by KEY in either mode, also when the two
        # trees were built in different insertion orders and below the root (values are compared with ==, which ignores
        # dict order)
        for mk in (dict, lambda it: defaultdict(int, it)):
            t1 = [mk([('b', 1), ('a', (2, 3))]), (mk([('y', 10), ('x', mk([('q', 0), ('p', 5)]))]),)]
            t2 = [mk([('a', (4, 5)), ('b', 6)]), (mk([('x', mk([('p', 7), ('q', 8)])), ('y', 20)]),)]
            kwn = {'namespace': ns}
            try:
                got = optree.tree_map(lambda x, y: (x, y), t1, t2, **kwn)
                want = [{'b': (1, 6), 'a': ((2, 4), (3, 5))}, ({'y': (10, 20), 'x': {'q': (0, 8), 'p': (5, 7)}},)]
                if got != want:
                    viol('pairing', site, 'tree_map over two trees with equal key sets in different insertion orders (namespace %r, mode %s) paired %r' % (ns, want_eff, got))
                bc = optree.tree_broadcast_common(t1, t2, **kwn)
                if bc != (t1, t2):
                    viol('pairing', site, 'tree_broadcast_common changed / mispaired equal-structure inputs (namespace %r, mode %s): %r' % (ns, want_eff, bc))
                pre = [mk([('b', 100), ('a', 200)]), (300,)]
                bp = optree.tree_broadcast_prefix(pre, t2, **kwn)
                if bp != [{'b': 100, 'a': (200, 200)}, ({'y': 300, 'x': {'q': 300, 'p': 300}},)]:
                    viol('pairing', site, 'tree_broadcast_prefix mispaired (namespace %r, mode %s): %r' % (ns, want_eff, bp))
                s1 = optree.tree_structure(t1, **kwn)
                up = s1.flatten_up_to(t2)
                by_path = dict(zip(s1.paths(), up))
                if by_path != {(0, 'b'): 6, (0, 'a', 0): 4, (0, 'a', 1): 5, (1, 0, 'y'): 20, (1, 0, 'x', 'q'): 8, (1, 0, 'x', 'p'): 7}:
                    viol('pairing', site, 'flatten_up_to paired values with the wrong paths (namespace %r, mode %s): %r' % (ns, want_eff, by_path))
                s2 = optree.tree_structure(t2, **kwn)
                cs = s1.broadcast_to_common_suffix(s2)
                if not (s1.is_prefix(cs) and s2.is_prefix(cs)) or cs.num_leaves != 6:
                    viol('pairing', site, 'broadcast_to_common_suffix of two equal structures is not a common suffix (namespace %r, mode %s): %r' % (ns, want_eff, cs))
                if optree.prefix_errors(t1, t2, **kwn):
                    viol('pairing', site, 'prefix_errors reports errors for trees that differ only in insertion order (namespace %r, mode %s)' % (ns, want_eff))
            except Exception as e:  # noqa: BLE001
                viol('pairing', site, 'pairing operation raised %s: %s (namespace %r, mode %s)' % (type(e).__name__, e, ns, want_eff))
        # ---- constructors on small / nested collections, and sub-treespecs of an ordered dict node
        leafspec = optree.treespec_leaf()
        for n_keys in (0, 1, 2):
            ks = PROBE_KEYS_INS[:n_keys]
            for nm, made in (('treespec_dict', optree.treespec_dict({k: leafspec for k in ks}, namespace=ns)),
                             ('treespec_defaultdict', optree.treespec_defaultdict(int, {k: leafspec for k in ks}, namespace=ns)),
                             ('from_collection(dict)', optree.treespec_from_collection({k: leafspec for k in ks}, namespace=ns)),
                             ('from_collection(defaultdict)', optree.treespec_from_collection(defaultdict(int, {k: leafspec for k in ks}), namespace=ns)),
                             ('treespec_list([treespec_dict])', optree.treespec_list([optree.treespec_dict({k: leafspec for k in ks}, namespace=ns)], namespace=ns).child(0)),
                             ('treespec_tuple((treespec_defaultdict,))', optree.treespec_tuple((optree.treespec_defaultdict(int, {k: leafspec for k in ks}, namespace=ns),), namespace=ns).child(0))):
                want = ks if want_eff else sorted(ks)
                if made.entries() != want:
                    viol('order-mismatch', site, '%s with %d key(s) in namespace %r gives entries %r; mode model says %r' % (nm, n_keys, ns, made.entries(), want))
                ref_tree = ({k: 0 for k in ks} if 'default' not in nm else defaultdict(int, {k: 0 for k in ks}))
                ref = optree.tree_structure(ref_tree, namespace=ns)
                # constructors are only required to produce the right ORDER (and a treespec equal to the flattened one);
                # whether they also record the mode's namespace is not part of the property (they do not for small dicts)
                if made != ref:
                    viol('order-mismatch', site, '%s with %d key(s) in namespace %r is %r but flattening the same collection gives %r' % (nm, n_keys, ns, made, ref))
                # A constructor result is used like a flattened one (tree_transpose re-flattens its operand in the namespace the
                # treespec RECORDED): equal treespecs must hash alike, and transposing with the constructor-made treespec must
                # pair values by key.  (An earlier version of this check did not demand the recorded namespace; the silent
                # mis-pairing below shows that it matters.)
                if 'treespec_dict' == nm and n_keys == 2:
                    if hash(made) != hash(ref) or made.namespace != ref.namespace:
                        viol('round-trip', site, '%s in namespace %r under mode %s equals the flattened treespec but records namespace %r (flatten: %r), hashes %s' % (
                            nm, ns, want_eff, made.namespace, ref.namespace, 'equal' if hash(made) == hash(ref) else 'differ'))
                    try:
                        tr = optree.tree_transpose(made, optree.tree_structure([0, 0]), {ks[0]: [10, 11], ks[1]: [20, 21]})
                        if tr != [{ks[0]: 10, ks[1]: 20}, {ks[0]: 11, ks[1]: 21}]:
                            viol('pairing', site, 'tree_transpose with a %s made in namespace %r under mode %s pairs values with the wrong keys: %r' % (nm, ns, want_eff, tr))
                    except Exception as e:  # noqa: BLE001
                        viol('pairing', site, 'tree_transpose with a constructor-made treespec raised %s: %s' % (type(e).__name__, e))
                value_round_trip(viol, site, '%s with %d key(s) in namespace %r under mode %s' % (nm, n_keys, ns, want_eff), made, ns)
        outer = [dict(PROBE_DICT), (defaultdict(int, PROBE_DICT),)]
        ospec = optree.tree_structure(outer, namespace=ns)
        for got_sub, direct in ((ospec.child(0), optree.tree_structure(outer[0], namespace=ns)), (ospec.children()[1].child(0), optree.tree_structure(outer[1][0], namespace=ns)),
                                (ospec.child(0).one_level(), optree.tree_structure(outer[0], namespace=ns))):
            if got_sub != direct or repr(got_sub) != repr(direct) or got_sub.entries() != direct.entries() or got_sub.namespace != direct.namespace or \
                    list(got_sub.unflatten([1, 2, 3])) != list(direct.unflatten([1, 2, 3])):
                viol('order-mismatch', site, 'sub-treespec %r of a dict-bearing treespec differs from flattening the child directly %r (namespace %r, mode %s)' % (got_sub, direct, ns, want_eff))
        # none_is_leaf does not change the order, and tree_transpose re-flattens with the recorded namespace
        dn = {'b': None, 'a': 1, 'c': None}
        for nil in (False, True):
            lv = optree.tree_leaves(dn, none_is_leaf=nil, namespace=ns)
            order = ['b', 'a', 'c'] if want_eff else ['a', 'b', 'c']
            want_lv = [dn[k] for k in order if nil or dn[k] is not None]
            if lv != want_lv:
                viol('order-mismatch', site, 'tree_leaves(none_is_leaf=%s) in namespace %r under mode %s gives %r, expected %r' % (nil, ns, want_eff, lv, want_lv))
        try:
            outer_t = {'b': 1, 'a': 2}
            tr = optree.tree_transpose(optree.tree_structure(outer_t, namespace=ns), optree.tree_structure((0, 0), namespace=ns),
                                       {'b': (10, 11), 'a': (20, 21)})
            if tr != ({'b': 10, 'a': 20}, {'b': 11, 'a': 21}):
                viol('pairing', site, 'tree_transpose under mode %s in namespace %r gives %r' % (want_eff, ns, tr))
            tm = optree.tree_transpose_map(lambda x: (x, -x), outer_t, namespace=ns)
            if tm != ({'b': 1, 'a': 2}, {'b': -1, 'a': -2}):
                viol('pairing', site, 'tree_transpose_map under mode %s in namespace %r gives %r' % (want_eff, ns, tm))
        except Exception as e:  # noqa: BLE001
            viol('pairing', site, 'tree_transpose(_map) raised %s: %s (namespace %r, mode %s)' % (type(e).__name__, e, ns, want_eff))
        # the reductions fold the leaves in traversal order too (an order-recording fold shows it)
        red_tree = {'b': 1, 'a': {'n': 2, 'm': 3}, 'c': defaultdict(int, {'z': 4, 'y': 5})}
        want_fold = optree.tree_leaves(red_tree, namespace=ns)
        for rname, got_fold in (('tree_reduce', optree.tree_reduce(lambda acc, x: acc + [x], red_tree, [], namespace=ns)),
                                ('tree_sum', optree.tree_sum(optree.tree_map(lambda x: [x], red_tree, namespace=ns), [], is_leaf=lambda x: isinstance(x, list), namespace=ns)),
                                ('tree_reduce(no init)', optree.tree_reduce(lambda acc, x: (acc if isinstance(acc, list) else [acc]) + [x], red_tree, namespace=ns))):
            if got_fold != want_fold:
                viol('order-mismatch', site, '%s in namespace %r under mode %s folds the leaves as %r; tree_leaves gives %r' % (rname, ns, want_eff, got_fold, want_fold))
        # EVERY public function that takes a function and a namespace visits the leaves in the order tree_leaves gives in that
        # namespace (the call order of the user function is how a dropped namespace shows on a dict-only tree)
        for fam_name, fam_call in CALL_ORDER_FAMILY:
            rec = []
            try:
                fam_call(rec, red_tree, ns)
            except Exception as e:  # noqa: BLE001
                viol('order-mismatch', site, '%s raised %s: %s (namespace %r, mode %s)' % (fam_name, type(e).__name__, e, ns, want_eff))
                continue
            if rec != want_fold:
                viol('order-mismatch', site, '%s in namespace %r under mode %s visits the leaves as %r; tree_leaves gives %r' % (fam_name, ns, want_eff, rec, want_fold))
        # every CALLING FORM of the dict constructors: a mapping, pairs, keyword children, and a mapping plus keyword children
        # (the keyword children come after the mapping's entries, as in dict(mapping, **kwargs))
        lf = optree.treespec_leaf()
        forms = (
            ('treespec_dict(mapping, **kw)', optree.treespec_dict({'m': lf, 'd': lf}, z=lf, b=lf, namespace=ns), dict({'m': 0, 'd': 0}, z=0, b=0)),
            ('treespec_dict(pairs, **kw)', optree.treespec_dict([('m', lf), ('d', lf)], z=lf, b=lf, namespace=ns), dict([('m', 0), ('d', 0)], z=0, b=0)),
            ('treespec_dict(**kw)', optree.treespec_dict(z=lf, b=lf, namespace=ns), dict(z=0, b=0)),
            ('treespec_defaultdict(f, mapping, **kw)', optree.treespec_defaultdict(int, {'m': lf, 'd': lf}, z=lf, b=lf, namespace=ns), defaultdict(int, {'m': 0, 'd': 0}, z=0, b=0)),
            ('treespec_defaultdict(f, **kw)', optree.treespec_defaultdict(list, z=lf, b=lf, namespace=ns), defaultdict(list, z=0, b=0)),
            ('treespec_ordereddict(mapping, **kw)', optree.treespec_ordereddict({'m': lf, 'd': lf}, z=lf, b=lf, namespace=ns), OrderedDict({'m': 0, 'd': 0}, z=0, b=0)),
        )
        for fname, made_f, same_tree in forms:
            ref_f = optree.tree_structure(same_tree, namespace=ns)
            if made_f != ref_f or made_f.entries() != ref_f.entries():
                viol('order-mismatch', site, '%s in namespace %r under mode %s has entries %r; flattening the dict built the same way gives %r' % (
                    fname, ns, want_eff, made_f.entries(), ref_f.entries()))
        # tree_transpose takes the namespace to re-flatten in from whichever of its treespecs recorded one: the inner treespec made
        # in this namespace (under its mode), the outer one made without any namespace -- and the mirrored case
        try:
            plain_outer = optree.tree_structure([0, 0])
            for mk in (dict, lambda it: defaultdict(int, it)):
                inner_ns = optree.tree_structure(mk([('b', 0), ('a', 0)]), namespace=ns)
                got = optree.tree_transpose(plain_outer, inner_ns, [mk([('b', 1), ('a', 2)]), mk([('b', 3), ('a', 4)])])
                if dict(got) != {'b': [1, 3], 'a': [2, 4]}:
                    viol('pairing', site, 'tree_transpose(outer without namespace, inner made in namespace %r under mode %s) gives %r' % (ns, want_eff, got))
                got2 = optree.tree_transpose(inner_ns, plain_outer, mk([('b', [1, 3]), ('a', [2, 4])]))
                if [dict(x) for x in got2] != [{'b': 1, 'a': 2}, {'b': 3, 'a': 4}]:
                    viol('pairing', site, 'tree_transpose(outer made in namespace %r under mode %s, inner without namespace) gives %r' % (ns, want_eff, got2))
        except Exception as e:  # noqa: BLE001
            viol('pairing', site, 'tree_transpose with one namespaced treespec raised %s: %s (namespace %r, mode %s)' % (type(e).__name__, e, ns, want_eff))
        # the table form of the Python-visible registry keeps listing the registrations of the namespace under any mode
        tbl = optree.register_pytree_node.get(namespace=ns)
        for c_reg in list(CHURN_LIVE.get(ns, ())):
            if c_reg not in tbl or tbl[c_reg].namespace != ns:
                viol('registry-lookup', site, 'register_pytree_node.get(namespace=%r) omits %s, which is registered in that namespace (mode %s)' % (ns, c_reg.__name__, want_eff))
        # nested dicts below the root follow the mode too
        nested = [{'b': 1, 'a': 2}, ({'d': 3, 'c': 4},), U.NT1({'f': 5, 'e': 6}, None)]
        nl = optree.tree_leaves(nested, namespace=ns)
        want_nl = [1, 2, 3, 4, 5, 6] if want_eff else [2, 1, 4, 3, 6, 5]
        if nl != want_nl or list(optree.tree_iter(nested, namespace=ns)) != want_nl or optree.tree_flatten_with_path(nested, namespace=ns)[1] != want_nl:
            viol('order-mismatch', site, 'dicts nested below the root do not follow the mode in namespace %r (mode %s): %r' % (ns, want_eff, nl))
        leaves, spec = optree.tree_flatten(od, namespace=ns)
        if leaves != [1, 2, 3] or spec.entries() != PROBE_KEYS_INS or spec != optree.treespec_ordereddict(OrderedDict((k, optree.treespec_leaf()) for k in PROBE_KEYS_INS), namespace=ns):
            viol('order-mismatch', site, 'OrderedDict affected by the mode in namespace %r: %r' % (ns, spec.entries()))
        # Python-visible registry lookup
        for cls, tree in ((dict, d), (defaultdict, dd)):
            h = optree.register_pytree_node.get(cls, namespace=ns)
            ch, meta, entries = h.flatten_func(tree)[:3]
            if list(entries) != want_keys or list(ch) != [PROBE_DICT[k] for k in want_keys]:
                viol('registry-lookup', site, 'register_pytree_node.get(%s, namespace=%r) flattens with keys %r; mode model says %r' % (cls.__name__, ns, list(entries), want_keys))
            rebuilt = h.unflatten_func(meta, ch)
            if type(rebuilt) is not cls or dict(rebuilt) != PROBE_DICT or (cls is defaultdict and rebuilt.default_factory is not int) or \
                    (want_eff and list(rebuilt) != PROBE_KEYS_INS):
                viol('registry-lookup', site, 'the %s handler from register_pytree_node.get(namespace=%r) does not rebuild its own output: %r' % (cls.__name__, ns, rebuilt))
            table = optree.register_pytree_node.get(namespace=ns)
            if list(table[cls].flatten_func(tree)[2]) != want_keys:
                viol('registry-lookup', site, 'register_pytree_node.get(namespace=%r)[%s] does not reflect the current mode' % (ns, cls.__name__))
            one = optree.tree_flatten_one_level(tree, namespace=ns)
            if list(one[2]) != want_keys:
                viol('registry-lookup', site, 'tree_flatten_one_level(%s, namespace=%r) gives keys %r; model %r' % (cls.__name__, ns, list(one[2]), want_keys))
        if extra_tree is not None and ns in ('', 'a'):
            leaves, spec = optree.tree_flatten(extra_tree, namespace=ns)
            back = optree.tree_unflatten(spec, leaves)
            dd_ = same(extra_tree, back)
            if dd_:
                viol('round-trip', site, 'generated tree does not round-trip in namespace %r with mode %s: %s' % (ns, want_eff, dd_))
            if list(optree.tree_iter(extra_tree, namespace=ns)) != leaves:
                viol('order-mismatch', site, 'tree_iter and tree_flatten disagree on leaf order in namespace %r (mode %s)' % (ns, want_eff))
            p2, l2, s2 = optree.tree_flatten_with_path(extra_tree, namespace=ns)
            if l2 != leaves or s2 != spec:
                viol('order-mismatch', site, 'tree_flatten_with_path and tree_flatten disagree in namespace %r (mode %s)' % (ns, want_eff))
    if V is not None:
        got_set = set(V.dict_order_namespaces())
        want_set = {n for n, f in model.flags.items() if f}
        if got_set != want_set:
            viol('flag-mismatch', site, 'engine namespace set %r, model %r' % (sorted(got_set), sorted(want_set)))
    return tuple(vec)


def run_job(job, io):
    tape = Tape(replay=job['tape']) if 'tape' in job else Tape(seed=derive_seed(job.get('seed', 0), PROPERTY, job.get('i', 0), repr(job.get('sweep'))))
    violations, keys, probes = [], set(), collections.Counter()
    oplog = []
    model = Model()
    ctx = gen.Ctx(kinds=('dict', 'ddict', 'odict', 'list', 'tuple', 'nt'), key_styles=('str', 'int', 'mixed', 'tuplekey'), plain_leaves=True)
    extra_tree = {'z': gen.gen_tree(tape, 4 + tape.draw(14, 'budget'), ctx), 'm': {3: 0, 1: 0}, 'a': defaultdict(list, {'q': 1, 'b': 2})}
    steps = [0]
    budget = [14]

    def viol(cls, site, msg):
        if len(violations) < 6:
            violations.append({'cls': cls, 'site': site, 'msg': '%s | program=%s' % (msg, ' '.join(oplog[-14:]))})

    carried = []  # treespecs made at one point of the program and USED at later points, under whatever mode holds then

    def carry(site):
        # every treespec made so far still rebuilds its own tree, original key order included, whatever blocks are open now
        for made_at, cns, how, spec, leaves, orig, data in carried:
            try:
                back = optree.tree_unflatten(spec, leaves)
                d = same(orig, back)
            except Exception as e:  # noqa: BLE001
                d = 'raised %s: %s' % (type(e).__name__, e)
            if d:
                viol('round-trip', 'carried:' + how, 'a treespec made at %s (namespace %r) and unflattened at %s no longer rebuilds its tree: %s' % (made_at, cns, site, d))
                break
            # its pickle, made when the treespec was made, is LOADED now (whatever mode holds now) and must give that treespec back:
            # what a treespec recorded belongs to the moment it was made, not to the moment it is loaded
            try:
                ld = pickle.loads(data)
                d = None
                if (ld.namespace, repr(ld), hash(ld)) != (spec.namespace, repr(spec), hash(spec)) or ld != spec:
                    d = 'loaded %r (namespace %r) vs made %r (namespace %r)' % (ld, ld.namespace, spec, spec.namespace)
                else:
                    d = same(orig, optree.tree_unflatten(ld, leaves))
            except Exception as e:  # noqa: BLE001
                d = 'raised %s: %s' % (type(e).__name__, e)
            if d:
                viol('round-trip', 'carried-pickle:' + how, 'the pickle of a treespec made at %s (namespace %r), loaded at %s, is not that treespec: %s' % (made_at, cns, site, d))
                break
        probes['carried-unflatten'] += len(carried)
        if len(carried) < 6 and tape.draw(3, 'carry-new') == 0:
            cns = ('', 'a', 'b')[tape.draw(3, 'carry-ns')]
            tree = {'b': 1, 'a': {'n': 2, 'm': (3, 4)}, 'c': defaultdict(int, {'z': 5, 'y': 6}), 'o': OrderedDict([('q', 7), ('p', 8)])}
            leaves, spec = optree.tree_flatten(tree, namespace=cns)
            how = ('flatten', 'pickled', 'child')[tape.draw(3, 'carry-how')]
            if how == 'pickled':
                spec = pickle.loads(pickle.dumps(spec))
            elif how == 'child':
                sub = tree['a'] if tape.draw(2, 'carry-child') else tree['c']
                leaves, spec = optree.tree_flatten(sub, namespace=cns)
                spec = optree.treespec_tuple([spec], namespace=cns).child(0)
                tree = sub
            carried.append((site, cns, how, spec, leaves, tree, pickle.dumps(spec, protocol=2 + tape.draw(4, 'carry-proto'))))

    def step(site, before):
        steps[0] += 1
        io.progress({'site': site, 'tape': tape.values})
        after = observe(model, viol, site, probes, extra_tree)
        carry(site)
        if after != model.vector():
            pass  # mismatches already reported by observe
        k = '%s|%s|%s' % (before, site, after)  # site carries the nesting depth
        if before != after or 'raise' in site:
            keys.add(k)
        return after

    sweep = job.get('sweep')

    def run_block(depth, pending_iters, sym=None, children=None, raise_here=False):
        """Execute one with-block; returns nothing; may raise Injected through the block."""
        if sym is None:
            mode = bool(tape.draw(2, 'mode'))
            ns = NS_CHOICES[tape.draw(3, 'ns')]
        else:
            mode = bool(sym % 2)
            ns = NS_CHOICES[sym // 2]
        kns = key_ns(ns)
        before_enter = observe(model, lambda *a: None, 'pre', collections.Counter(), None)
        saved = model.own(kns)
        if not mode and model.own(kns):
            probes['false-inside-true'] += 1
        if depth >= 3:
            probes['nested-depth>=3'] += 1
        oplog.append('enter(%s,%s)' % (mode, kns or 'G'))
        probes['enter'] += 1
        # how the block is entered: inline (manager created and entered at once), through a manager object that was CREATED
        # EARLIER (when the run started, all flags off) and is only entered now, or through the decorator form of a function
        # decorated earlier.  The saved "previous" value must be the one at ENTRY in all three cases.
        form = 'inline'
        if sym is None or True:
            f_ = tape.draw(5, 'enter-form') if sym is None else 0
            if f_ == 3 and prebuilt.get((mode, kns)):
                form = 'prebuilt'
            elif f_ == 4:
                form = 'decorator'
        probes['enter-form:' + form] += 1
        if form == 'prebuilt':
            cm = prebuilt[(mode, kns)].pop()
        elif form == 'decorator':
            cm = _DecoratedBlock(decorated[(mode, kns)])
        else:
            cm = optree.dict_insertion_ordered(mode, namespace=ns)
        # the other direction: an iterator created (and started) BEFORE the block keeps the mode of its creation while it is
        # advanced INSIDE the block - entering a block must not change a traversal that began outside it
        pre_eff = model.eff(kns)
        pre_it = optree.tree_iter({'zz': dict(PROBE_DICT), 'aa': 0, 'mm': (defaultdict(int, PROBE_DICT),)}, namespace=kns)
        pre_first = next(pre_it)
        try:
            with cm:
                model.flags[kns] = mode
                step('enter#%d' % depth, before_enter)
                pre_got = [pre_first] + list(pre_it)
                pre_base = [PROBE_DICT[k] for k in (PROBE_KEYS_INS if pre_eff else PROBE_KEYS_SORTED)]
                pre_want = (pre_base + [0] + pre_base) if pre_eff else ([0] + pre_base + pre_base)
                probes['iterator-across-enter'] += 1
                if pre_got != pre_want:
                    viol('iterator-mode', 'iterator-entered', 'an iterator created under mode %s in namespace %r and advanced inside a block that sets mode %s yields %r; expected %r' % (
                        pre_eff, kns, mode, pre_got, pre_want))
                # an iterator created inside the block keeps the mode it was created under
                it = optree.tree_iter(dict(PROBE_DICT), namespace=kns)
                pending_iters.append((it, model.eff(kns), kns))
                # also over a defaultdict and over dicts nested below the root, and one that is started inside the block
                it2 = optree.tree_iter([defaultdict(int, PROBE_DICT), (dict(PROBE_DICT),)], namespace=kns)
                pending_iters.append((it2, model.eff(kns), kns, 2))
                it3 = optree.tree_iter({'zz': dict(PROBE_DICT), 'aa': 0}, namespace=kns)
                first = next(it3)
                pending_iters.append((it3, model.eff(kns), kns, ('started', first)))
                if children is not None:
                    for (csym, cch, craise) in children:
                        run_block(depth + 1, pending_iters, csym, cch, craise)
                    if raise_here:
                        oplog.append('raise')
                        raise Injected('body')
                else:
                    n_inner = tape.draw(3, 'n-inner') if depth < 5 else 0
                    for _ in range(n_inner):
                        if budget[0] <= 0:
                            break
                        budget[0] -= 1
                        what = tape.draw(7, 'inner')
                        if what <= 2:
                            try:
                                run_block(depth + 1, pending_iters)
                            except INJECTED:
                                if tape.draw(2, 'propagate'):
                                    oplog.append('reraise')
                                    raise
                                step('caught#%d' % depth, model.vector())
                        elif what == 3:
                            how = tape.draw(4, 'raise-how')
                            probes['raise-exit'] += 1
                            if how == 0:
                                oplog.append('raise')
                                raise Injected('body')
                            if how == 1:
                                oplog.append('raise-base')
                                probes['raise-base-exception'] += 1
                                raise InjectedBase('body')
                            if how == 2:
                                # an error raised by optree itself from inside the block
                                oplog.append('raise-optree')
                                probes['raise-from-optree'] += 1
                                try:
                                    optree.tree_unflatten(optree.tree_structure(extra_tree, namespace=kns), [])
                                except ValueError as e:
                                    raise Injected('optree') from e
                            oplog.append('raise-generator-exit')
                            raise InjectedBase('GeneratorExit-like')
                        elif what == 4:
                            oplog.append('raise-in-callback')
                            probes['raise-in-callback'] += 1

                            def pred(x):
                                raise Injected('callback')
                            optree.tree_flatten(extra_tree, is_leaf=pred, namespace=kns)
                        elif what == 6:
                            # registry traffic inside the block must not touch the mode: register a scratch type in a namespace,
                            # use it, unregister it (the last registration of that namespace goes away again)
                            tns = ('a', 'b', kns or 'a')[tape.draw(3, 'churn-ns')]
                            probes['registry-churn-in-block'] += 1
                            oplog.append('registry-churn(%s)' % tns)
                            f_ = U.Funcs(U.CA, 9000, 0)
                            optree.register_pytree_node(U.CA, f_.flatten, f_.unflatten, namespace=tns)
                            optree.tree_flatten(U.CA([1, {'b': 2, 'a': 3}], 0), namespace=tns)
                            optree.unregister_pytree_node(U.CA, namespace=tns)
                            step('registry-churn#%d' % depth, model.vector())
                        else:
                            non_lifo(depth, pending_iters)
        finally:
            model.flags[kns] = saved
            oplog.append('exit(%s)' % (kns or 'G'))
            probes['exit'] += 1
            after = step('exit#%d' % depth, model.vector())
            if after != before_enter:
                viol('not-restored', 'exit', 'mode vector after the block %r differs from the vector before it was entered %r' % (after, before_enter))

    def non_lifo(depth, pending_iters):
        """Two blocks over DIFFERENT namespaces, exited in entry order (non-LIFO)."""
        i = tape.draw(3, 'nl-a')
        j = (i + 1 + tape.draw(2, 'nl-b')) % 3
        na, nb = NS_CHOICES[i], NS_CHOICES[j]
        ma, mb = bool(tape.draw(2, 'nl-ma')), bool(tape.draw(2, 'nl-mb'))
        ka, kb = key_ns(na), key_ns(nb)
        probes['non-lifo-exit'] += 1
        before = model.vector()
        cma = optree.dict_insertion_ordered(ma, namespace=na)
        cmb = optree.dict_insertion_ordered(mb, namespace=nb)
        sa = model.own(ka)
        cma.__enter__()
        model.flags[ka] = ma
        oplog.append('nl-enter(%s,%s)' % (ma, ka or 'G'))
        step('nl-enter', before)
        sb = model.own(kb)
        cmb.__enter__()
        model.flags[kb] = mb
        oplog.append('nl-enter(%s,%s)' % (mb, kb or 'G'))
        step('nl-enter', model.vector())
        cma.__exit__(None, None, None)
        model.flags[ka] = sa
        oplog.append('nl-exit(%s)' % (ka or 'G'))
        step('nl-exit', model.vector())
        cmb.__exit__(None, None, None)
        model.flags[kb] = sb
        oplog.append('nl-exit(%s)' % (kb or 'G'))
        after = step('nl-exit', model.vector())
        if after != before:
            viol('not-restored', 'non-lifo', 'mode vector %r after two interleaved blocks over different namespaces differs from %r before' % (after, before))

    pending = []
    # managers and decorated functions made NOW, while every flag is off; used later inside other blocks
    prebuilt = {(m, key_ns(n)): [optree.dict_insertion_ordered(m, namespace=n) for _ in range(3)] for m in (True, False) for n in NS_CHOICES}
    decorated = {(m, key_ns(n)): optree.dict_insertion_ordered(m, namespace=n)(_call_body) for m in (True, False) for n in NS_CHOICES}
    live_funcs = []
    for lns, classes in CHURN_LIVE.items():
        for c_ in classes:
            f_live = U.Funcs(c_, 8000 + len(live_funcs), 0)
            optree.register_pytree_node(c_, f_live.flatten, f_live.unflatten, namespace=lns)
            live_funcs.append((c_, lns))
    initial = observe(model, viol, 'initial', probes, extra_tree)
    if violations:
        for c_, lns in live_funcs:
            optree.unregister_pytree_node(c_, namespace=lns)
        raise NotPristine('mode set not pristine at run start: %r' % violations)
    if sweep is not None:
        # parse the parenthesis shape into a forest with symbols assigned in pre-order
        syms = list(sweep['syms'])
        exc = sweep['exc']
        counter = [0]

        def parse(s, pos):
            nodes = []
            while pos < len(s) and s[pos] == '(':
                idx = counter[0]
                counter[0] += 1
                ch, pos = parse(s, pos + 1)
                nodes.append((syms[idx], ch, exc == idx + 1))
                pos += 1
            return nodes, pos
        forest, _ = parse(sweep['shape'], 0)
        for (sym, ch, rz) in forest:
            try:
                run_block(1, pending, sym, ch, rz)
            except INJECTED:
                step('caught#0', model.vector())
    else:
        n_top = 1 + tape.draw(4, 'n-top')
        for _ in range(n_top):
            budget[0] -= 1
            try:
                run_block(1, pending)
            except INJECTED:
                step('caught#0', model.vector())
    final = observe(model, viol, 'final', probes, extra_tree)
    if final != initial:
        viol('not-restored', 'final', 'mode vector at the end %r differs from the initial one %r' % (final, initial))
    for item in pending:
        it, eff, kns = item[:3]
        probes['iterator-across-exit'] += 1
        got = list(it)
        base = [PROBE_DICT[k] for k in (PROBE_KEYS_INS if eff else PROBE_KEYS_SORTED)]
        want = base
        if len(item) > 3 and item[3] == 2:
            want = base + base
        elif len(item) > 3:
            # {'zz': {...}, 'aa': 0}: insertion order -> zz first (its first leaf was already taken), sorted -> 'aa' first
            full = (base + [0]) if eff else ([0] + base)
            if item[3][1] != full[0]:
                viol('iterator-mode', 'iterator', 'first leaf %r taken inside the block does not match mode %s' % (item[3][1], eff))
            want = full[1:]
        if got != want:
            viol('iterator-mode', 'iterator', 'an iterator created under mode %s in namespace %r yields %r after the block exited; expected %r' % (eff, kns, got, want))
    for c_, lns in live_funcs:
        try:
            optree.unregister_pytree_node(c_, namespace=lns)
        except Exception as e:  # noqa: BLE001
            viol('registry-lookup', 'final', 'unregistering the run-long registration of %s in %r raised %s: %s' % (c_.__name__, lns, type(e).__name__, e))
    dig = hashlib.sha256(repr((oplog, [v['cls'] + v['site'] for v in violations])).encode()).hexdigest()
    out = {'digest': dig, 'violations': violations, 'keys': sorted(keys), 'steps': steps[0], 'probes': dict(probes),
           'faults_cfg': {'raise': 1}, 'faults_fired': {'raise': probes['raise-exit'] + probes['raise-in-callback']},
           'sample': {'program': ' '.join(oplog)} if (job.get('i', 0) % 100 == 0 and sweep is None) else None,
           'extra': {'steps': steps[0], 'sweep_programs': int(sweep is not None)}}
    if violations or job.get('_min') or job.get('_stream_tape'):
        out['tape'] = tape.values
        out['ops'] = oplog
    return out
