"""C17 — concurrent use from several threads is equivalent to some sequential use.

Engine ``threads``: 2-4 real threads (one baton) share trees, treespecs, one leaf iterator and the
registry.  The seeded scheduler decides who runs at every yield point: every Python callback the
engine can reach, every line of the optree Python layer, every (simulated) registry-lock operation.
Engine reader/writer locks are instrumented (hook build): a would-block while the owner is parked
in Python is a *proven* deadlock on a GIL build and is reported deterministically.
"""
from __future__ import annotations

import collections
from collections import OrderedDict, defaultdict
import gc
import hashlib
import pickle
import os
import sys
import threading
import warnings

import optree
from optree import _C

from optsim import gen
from optsim import universe as U
from optsim.kernel import EngineWouldBlock, Sim, SimLock, StepCap, choose_policy
from optsim.same import same
from optsim.scenario import GLOBAL, OPS, OP_NAMES, Registry, Scn, clone, describe_outcome, outcome, same_outcome, walk
from optsim.tape import Tape, derive_seed

PROPERTY = 'C17'
LEVEL = 'exploration'
RULE = ('seeded runs of 2-4 tasks over six scenario templates (T1 registrar||operations, T2 racing registrations of one '
        '(type, namespace), T3 flatten||re-registration of a type in the tree, T4 consumers of one shared iterator, T5 '
        'hash/repr/eq/pickle of one shared treespec with instrumented dunders, T6 mixed) under scheduling policies '
        '{sticky random, uniform random, PCT d<=3, single-switch sweep}; yield points = engine->Python callbacks, lines of '
        'the optree Python layer, simulated registry lock. distinct = distinct schedule digests (sha256 of the (task,label) '
        'switch sequence); non-trivial = at least one context switch taken while the switching task was inside a callback '
        'invoked by the engine')
ASSUMPTIONS = [
    'GIL build: another thread can run only inside engine->Python callbacks, between bytecodes of the Python layer, or in '
    'one-time call_once windows (warmed up before runs); free-threaded code paths are not compiled and not covered',
    'the instrumented rwlock has the same blocking semantics as std::shared_mutex (try-lock first, then lock)',
    'uncontrolled microsecond-interval preemption (second half of the quantifier text) is runtime monitoring and is not '
    'part of the deciding step',
    'cross-API linearizability between engine registry and Python mirror during a registration is not asserted',
]
REAL_VS_STUB = {
    'real': ['optree C++ engine (hooks build: instrumented rwlocks, same semantics)', 'optree Python layer (traced line by line)',
             'CPython threads, GIL, warnings machinery, GC, pickle'],
    'stub_or_simulator_owned': ['which thread runs next (seeded scheduler)', 'optree.registry.__REGISTRY_LOCK (SimLock)',
                                'warnings.showwarning', 'all user callbacks', 'GC timing'],
}
EXPECTED_PROBES = ('cb:is_leaf', 'cb:flatten_func', 'cb:unflatten_func', 'cb:map_fn', 'cb:key.__hash__', 'cb:key.__lt__',
                   'cb:meta.__ne__', 'cb:meta.__repr__', 'cb:showwarning', 'cb:meta.__getattr__', 't8:registration-failed-in-hook', 't9:completed', 't9:refused', 't10:observations', 't11:operations', 't12:operations', 't13:runs', 't13:address-reused', 'cb:meta.__getattribute__', 'stress:preemptive-run', 't3:pairing-op',
                   'lock:registry:acquire', 'lock:registry:contended', 'switch-inside-callback')
# 'callback-entered-with-engine-lock-held' is reported as a counter; on a correct tree it stays 0 (it was 30 569 per
# quick run before fix 414fcff)

V = _C._verif if hasattr(_C, '_verif') else None
TEMPLATES = ('T1', 'T2', 'T3', 'T4', 'T5', 'T6', 'T7', 'T8', 'T9', 'T10', 'T11', 'T12', 'T13')
PKG_PREFIX = os.path.dirname(optree.__file__) + os.sep
REGMOD = optree.registry


def tier_config(tier):
    if tier == 'thorough':
        return {'budget_s': 900, 'flavours': ['hooks', 'asan'], 'run_timeout': 40, 'determinism_sample': 32}
    return {'budget_s': 60, 'flavours': ['hooks'], 'run_timeout': 30, 'determinism_sample': 12}


def jobs(tier, seed, flavours):
    i = 0
    while True:
        tpl = TEMPLATES[i % len(TEMPLATES)]
        yield {'i': i, 'seed': seed, 'tpl': tpl}
        if i % len(TEMPLATES) != 5 and (i // len(TEMPLATES)) % 4 == 0:
            # single-switch sweep over the first task's yield points for this scenario
            for at in range(0, 48, 1 if tier == 'thorough' else 3):
                yield {'i': i, 'seed': seed, 'tpl': tpl, 'sweep': [(i // len(TEMPLATES)) % 2, at]}
        if tier == 'thorough' and i % len(TEMPLATES) != 5 and (i // len(TEMPLATES)) % 16 == 1:
            # two-switch sweep: A runs a steps, B runs b steps, A runs to its end, then the rest
            for a in range(0, 40, 2):
                for b in range(1, 40, 3):
                    yield {'i': i, 'seed': seed, 'tpl': tpl, 'script': [[0, a], [1, b], [0, 100000], [1, 100000]]}
                    yield {'i': i, 'seed': seed, 'tpl': tpl, 'script': [[1, a], [0, b], [2, 100000], [1, 100000]]}
        if 'asan' in flavours and i % 20 == 0:
            yield {'i': i, 'seed': seed, 'tpl': tpl, 'flavour': 'asan'}
        if i % 300 == 7:
            yield {'i': i, 'seed': seed, 'tpl': 'stress'}  # the preemptive backstop (see run_stress)
        i += 1


def warmup():
    class IO:
        def progress(self, o):
            pass
    found = []
    for i, tpl in enumerate(TEMPLATES * 2):
        found.extend(run_job({'i': i, 'seed': 777, 'tpl': tpl, '_warm': True}, IO()).get('violations') or [])  # what a warm-up run finds counts
        if found:
            break
    return found


# --------------------------------------------------------------------------------------------------
def engine_registry_model():
    """{(namespace or None, type): flatten_func} for custom registrations, from the engine snapshot."""
    out = {}
    for nil in (False, True):
        for ns, cls, kind, ff, uf, pe in V.registry_snapshot(nil):
            if kind == 0:
                out[(nil, ns, cls)] = (ff, uf, pe)
    return out


def run_stress(job, io):
    """BACKSTOP, not the deciding step: real threads under the interpreter's own preemptive scheduler (switch interval 1 us) for a
    fraction of a second -- flatteners || a registrar of unrelated fresh classes.  The simulator's interleaving granularity is
    complete only as long as the engine never gives up the GIL by itself; a change that makes it do so opens windows no
    callback-level schedule can reach.  This job cannot choose or replay a schedule; it only notices that the run does not come
    back (the pool's watchdog reports a hang) or that an operation's result differs from its solo result.  On a tree where the
    property holds neither can happen under any schedule, so it cannot raise a false alarm."""
    violations = []
    io.progress({'site': 'stress', 'tape': None})
    cls_ = U.CA
    f = U.Funcs(cls_, 1, 0)
    optree.register_pytree_node(cls_, f.flatten, f.unflatten, namespace='stress-tree')
    try:
        tree = [{'b': U.Leaf(1), 'a': (U.Leaf(2), U.CA([U.Leaf(3), U.Leaf(4)], 0))}, U.NT1(U.Leaf(5), [U.Leaf(6)])]
        solo = optree.tree_flatten(tree, namespace='stress-tree')
        solo_map = optree.tree_map(lambda x, y: x, tree, tree, namespace='stress-tree')
        stop = threading.Event()
        bad = []
        old_si = sys.getswitchinterval()
        sys.setswitchinterval(1e-6)

        def flattener():
            n = 0
            while not stop.is_set() and n < 4000:
                n += 1
                got = optree.tree_flatten(tree, namespace='stress-tree')
                if got[0] != solo[0] or got[1] != solo[1]:
                    bad.append('flatten differs from its solo result')
                    return
                if n % 7 == 0 and same(optree.tree_map(lambda x, y: x, tree, tree, namespace='stress-tree'), solo_map):
                    bad.append('tree_map differs from its solo result')
                    return

        def registrar():
            n = 0
            while not stop.is_set() and n < 1500:
                n += 1
                c = type('StressC%d' % n, (), {})
                optree.register_pytree_node(c, lambda o: ((), None), lambda m, ch: None, namespace='stress-reg')
                optree.unregister_pytree_node(c, namespace='stress-reg')

        ths = [threading.Thread(target=flattener, daemon=True) for _ in range(3)] + [threading.Thread(target=registrar, daemon=True)]
        for t in ths:
            t.start()
        for t in ths:
            t.join()  # a deadlock never comes back: the pool's watchdog ends the child and reports a hang
        sys.setswitchinterval(old_si)
        for b in bad[:1]:
            violations.append({'cls': 'not-sequential', 'site': 'stress', 'msg': b + ' (real threads, preemptive; not replayable as a schedule)'})
    finally:
        try:
            optree.unregister_pytree_node(cls_, namespace='stress-tree')
        except Exception:  # noqa: BLE001
            pass
    return {'digest': 'stress', 'violations': violations, 'keys': ['stress'], 'steps': 1, 'probes': {'stress:preemptive-run': 1},
            'faults_cfg': {}, 'faults_fired': {}, 'sample': None, 'extra': {'preemptive_stress_runs': 1}}


def run_job(job, io):
    if job.get('tpl') == 'stress':
        return run_stress(job, io)
    tape = Tape(replay=job['tape']) if 'tape' in job else Tape(seed=derive_seed(job.get('seed', 0), PROPERTY, job['tpl'], job['i']))
    tpl = job['tpl']
    sim = Sim(tape, trace_prefix=PKG_PREFIX, max_steps=30000)
    io.progress({'site': tpl, 'tape': None})
    if job.get('_stream_tape'):
        tape.sink = lambda: io.progress({'site': tpl, 'tape': tape.values})
    violations, keys, probes = [], set(), collections.Counter()
    desc = {'tpl': tpl}

    def viol(cls, site, msg):
        if len(violations) < 6:
            violations.append({'cls': cls, 'site': site, 'msg': msg})

    # ---- seams
    old_lock = REGMOD.__dict__['__REGISTRY_LOCK']
    simlock = SimLock(sim, 'registry')
    REGMOD.__dict__['__REGISTRY_LOCK'] = simlock
    old_show = warnings.showwarning
    old_filters = warnings.filters[:]
    warnings.resetwarnings()
    warnings.simplefilter('always')

    def showwarning(message, category, filename, lineno, file=None, line=None):
        if V is not None and V.held_locks():
            sim.probes['callback-entered-with-engine-lock-held'] += 1
        with sim.callback():
            sim.point('cb:showwarning')

    warnings.showwarning = showwarning

    def cb(label):
        if V is not None and sim.cur is not None and V.held_locks():
            sim.probes['callback-entered-with-engine-lock-held'] += 1
        with sim.callback():
            sim.point('cb:' + label)

    if V is not None:
        V.set_hook(sim.engine_hook)

    reg_before = engine_registry_model() if V is not None else None
    mirror_before = dict(REGMOD._NODETYPE_REGISTRY)
    try:
        body = globals()['tpl_' + tpl]
        ctx = body(sim, tape, viol, keys, desc, cb, job)
    except StepCap:
        viol('step-cap', tpl, 'run exceeded the step cap')
        ctx = None
    finally:
        U.HOOK = None
    # ---- common post-run oracles
    if sim.deadlock is not None:
        viol('deadlock', 'python-lock:%s' % sim.deadlock.get('at'), 'no runnable task: %r' % (sim.deadlock,))
    for rec in sim.engine_blocks:
        owner = rec['owner_parked_at'][0] if rec['owner_parked_at'] else None
        viol('deadlock', 'engine-lock:%s:%s<-%s' % (rec['site'], rec['mode'], owner),
             'task %s would block forever on engine lock %s (%s) held by task(s) %r parked at %r inside Python code; on a GIL '
             'build the owner can never resume' % (rec['task'], rec['site'], rec['mode'], rec['holders'], rec['owner_parked_at']))
    for t in sim.tasks:
        if t.error is not None and not isinstance(t.error, (EngineWouldBlock, SystemExit)):
            viol('task-error', '%s:%s' % (tpl, t.name), 'task %s died with %s: %s' % (t.name, type(t.error).__name__, t.error))
    if V is not None and sim.deadlock is None:
        held = V.held_locks()
        if held and not sim.engine_blocks:
            viol('lock-held', tpl, 'engine lock still held after all tasks finished: %r' % (held,))
        snap = V.snapshots()
        if snap.get('hash_running') or snap.get('repr_running'):
            viol('guard-residue', tpl, 'hash/repr guard set not empty after the run: %r' % {k: snap[k] for k in ('hash_running', 'repr_running')})
    # cleanup scenario registrations, then compare registry with the pre-run state
    if ctx is not None and sim.deadlock is None:
        U.HOOK = None
        try:
            ctx['cleanup']()
        except Exception as e:  # noqa: BLE001
            viol('cleanup-failed', tpl, 'undoing the scenario registrations raised %s: %s' % (type(e).__name__, e))
        if V is not None and not violations:
            reg_after = engine_registry_model()
            if set(reg_after) != set(reg_before):
                viol('registry-residue', tpl, 'engine registry differs after cleanup: +%r -%r' % (
                    [k[1:] for k in set(reg_after) - set(reg_before)][:4], [k[1:] for k in set(reg_before) - set(reg_after)][:4]))
            if set(REGMOD._NODETYPE_REGISTRY) != set(mirror_before):
                viol('registry-residue', tpl, 'Python registry mirror differs after cleanup')
    if V is not None:
        V.set_hook(None)
    warnings.showwarning = old_show
    warnings.filters[:] = old_filters
    REGMOD.__dict__['__REGISTRY_LOCK'] = old_lock

    for lab, n in sim.probes.items():
        if lab.startswith(('cb:', 'lock:', 't3:', 't5:', 't8:', 't9:', 't10:', 't11:', 't12:', 't13:')) or lab in ('callback-entered-with-engine-lock-held',):
            probes[lab] += n
    py_lines = sum(n for lab, n in sim.probes.items() if lab.startswith('py:'))
    probes['py-line-yield-points'] += py_lines
    if sim.cb_switches:
        probes['switch-inside-callback'] += sim.cb_switches
    dig = sim.digest()
    if sim.cb_switches > 0:
        keys.add('sched|' + dig[:24])
    desc.update({'policy': list(sim.policy) if sim.policy else None, 'switches': sim.switches, 'cb_switches': sim.cb_switches,
                 'steps': sim.steps, 'tasks': [t.name for t in sim.tasks], 'sweep': job.get('sweep'), 'script': job.get('script')})
    out = {'digest': dig, 'violations': violations, 'keys': sorted(keys), 'steps': sim.steps, 'probes': dict(probes),
           'faults_cfg': {'gc': int(bool(sim.gc_rate))}, 'faults_fired': dict(sim.faults_fired),
           'sample': dict(desc, trail=sim.trail[:40]) if job.get('i', 0) % 97 == 0 and not job.get('sweep') and not job.get('script') else None,
           'extra': {'context_switches': sim.switches, 'switches_inside_callbacks': sim.cb_switches,
                     'runs_' + tpl: 1, 'sweep_runs': int(bool(job.get('sweep'))), 'script_runs': int(bool(job.get('script')))}}
    if violations or job.get('_min') or job.get('_stream_tape'):
        out['tape'] = tape.values
        out['ops'] = dict(desc, trail=sim.trail[-60:])
    return out


def set_policy(sim, tape, job):
    if job.get('script'):
        sim.policy = ('script',)
        sim.script = [list(x) for x in job['script']]
    elif job.get('sweep'):
        sim.policy = ('switch',)
        sim.forced_switch = tuple(job['sweep'])
    else:
        choose_policy(sim, tape, est_steps=150)
    g = tape.draw(6, 'gc-rate')
    sim.gc_rate = (0, 0, 0, 0, 40, 12)[g]


def run_program(sim, scn, names, results):
    def body(task):
        for name in names:
            results.append((name, outcome(OPS[name], scn)))
    return body


def compare_with_solo(viol, tpl, tname, names, results, solo):
    if len(results) != len(names):
        viol('incomplete', '%s:%s' % (tpl, tname), 'task finished %d of %d operations' % (len(results), len(names)))
    for (name, got) in results:
        d = same_outcome(solo[name], got)
        if d:
            viol('not-sequential', '%s:%s' % (tpl, name), 'operation %s run concurrently differs from running alone: %s' % (name, d))


def solo_refs(scn, names):
    U.HOOK = None
    return {n: outcome(OPS[n], scn) for n in set(names)}


READ_OPS = tuple(n for n in OP_NAMES)


def registrar_program(sim, tape, reg_log, classes, namespaces, n_ops):
    """Register / unregister *unrelated* types in the registrar's own namespaces."""
    plan = []
    state = set()
    for _ in range(n_ops):
        cls = classes[tape.draw(len(classes), 'r-cls')]
        ns = namespaces[tape.draw(len(namespaces), 'r-ns')]
        if (cls, ns) in state:
            plan.append(('unregister', cls, ns))
            state.discard((cls, ns))
        else:
            plan.append(('register', cls, ns, tape.draw(4, 'r-style')))
            state.add((cls, ns))

    def body(task):
        rid = 500
        for step in plan:
            if step[0] == 'register':
                _, cls, ns, style = step
                f = U.Funcs(cls, rid, style)
                rid += 1
                optree.register_pytree_node(cls, f.flatten, f.unflatten, namespace=ns)
                reg_log.append(('register', cls, ns, f))
            else:
                _, cls, ns = step
                optree.unregister_pytree_node(cls, namespace=ns)
                reg_log.append(('unregister', cls, ns, None))

    return body, plan


def undo_reg_log(reg_log):
    live = {}
    for what, cls, ns, f in reg_log:
        if what == 'register':
            live[(cls, ns)] = f
        else:
            live.pop((cls, ns), None)
    for (cls, ns) in list(live):
        optree.unregister_pytree_node(cls, namespace=ns)


REG_CLASSES = (U.CD, U.CE, U.NTM, U.NT2, U.TM, U.PM, U.STRUCTSEQ_TYPES[0])


# -------------------------------------------------------------------------------------------------- T1 / T6
def tpl_T1(sim, tape, viol, keys, desc, cb, job, mixed=False):
    scn = Scn(tape, ns='ns')
    n_tasks = 1 + tape.draw(2, 'n-op-tasks')
    progs = []
    for _ in range(n_tasks):
        progs.append([READ_OPS[tape.draw(len(READ_OPS), 'opname')] for _ in range(1 + tape.draw(4, 'n-ops'))])
    solo = solo_refs(scn, [n for p in progs for n in p])
    if tape.draw(2, 't1-fresh-specs'):  # treespec objects nobody has used yet (see T5)
        scn.spec = optree.tree_structure(scn.tree, **scn.kw)
        scn.prefix_spec = optree.tree_structure(scn.tree, is_leaf=lambda x: id(x) in scn.stop_ids, **scn.kw)
        scn.other_spec = optree.tree_structure(scn.other, **scn.kw)
    reg_log = []
    # a class created inside the run: its classification is not in the engine's type cache yet, so the metaclass
    # attribute hooks (meta.__getattr__) run as callbacks during this run's registration
    fresh = U.MetaHook('FreshTM', (tuple,), {})
    classes = (REG_CLASSES + (fresh, fresh)) if not mixed else REG_CLASSES[:4] + (fresh,)
    rbody, plan = registrar_program(sim, tape, reg_log, classes, ('r1', 'r2'), 2 + tape.draw(5, 'n-reg-ops'))
    set_policy(sim, tape, job)
    results = []
    sim.spawn('registrar', rbody)
    for i, p in enumerate(progs):
        res = []
        results.append(res)
        sim.spawn('ops%d' % i, run_program(sim, scn, p, res))
    desc.update({'programs': progs, 'registrar': [(s[0], s[1].__name__, s[2]) for s in plan], 'tree': gen.describe(scn.tree)[:200]})
    U.HOOK = cb
    sim.run()
    U.HOOK = None
    if sim.deadlock is None and not sim.engine_blocks:
        for i, p in enumerate(progs):
            compare_with_solo(viol, 'T1', 'ops%d' % i, p, results[i], solo)
        # the registrar's own effects: every completed registration is visible, engine == mirror
        check_registrar_effects(viol, 'T1', reg_log)

    def cleanup():
        undo_reg_log(reg_log)
        scn.close()
    return {'cleanup': cleanup}


def check_registrar_effects(viol, tpl, reg_log):
    live = {}
    for what, cls, ns, f in reg_log:
        if what == 'register':
            live[(cls, ns)] = f
        else:
            live.pop((cls, ns), None)
    U.HOOK = None
    for (cls, ns), f in live.items():
        h = optree.register_pytree_node.get(cls, namespace=ns)
        if h is None or h.flatten_func != f.flatten:
            viol('mirror-mismatch', '%s:%s' % (tpl, cls.__name__), 'Python registry does not show the completed registration of %s in %r' % (cls.__name__, ns))
        if V is not None:
            eng = engine_registry_model()
            for nil in (False, True):
                e = eng.get((nil, ns, cls))
                if e is None or e[0] != f.flatten:
                    viol('engine-mismatch', '%s:%s' % (tpl, cls.__name__), 'engine registry (none_is_leaf=%s) lacks the completed registration of %s in %r' % (nil, cls.__name__, ns))


def tpl_T6(sim, tape, viol, keys, desc, cb, job):
    return tpl_T1(sim, tape, viol, keys, desc, cb, job, mixed=True)


# -------------------------------------------------------------------------------------------------- T2
def tpl_T2(sim, tape, viol, keys, desc, cb, job):
    pool = REG_CLASSES + (U.MetaHook('FreshTM', (tuple,), {}),)
    cls = pool[tape.draw(len(pool), 'race-cls')]
    use_global = tape.draw(4, 'race-global') == 3
    ns = GLOBAL if use_global else 'race'
    flat_ns = '' if use_global else 'race'
    n = 2 + tape.draw(2, 'n-racers')
    funcs = [U.Funcs(cls, 700 + i, tape.draw(4, 'style')) for i in range(n)]
    outcomes = [None] * n
    set_policy(sim, tape, job)

    def racer(i):
        def body(task):
            try:
                optree.register_pytree_node(cls, funcs[i].flatten, funcs[i].unflatten, namespace=ns)
                outcomes[i] = 'ok'
            except ValueError as e:
                outcomes[i] = 'ValueError'
        return body

    for i in range(n):
        sim.spawn('racer%d' % i, racer(i))
    # an observer that keeps flattening unrelated things and an instance of the raced class
    inst = make_instance(cls)
    obs_results = []

    def observer(task):
        for j in range(4):
            obs_results.append(outcome(lambda s: optree.tree_flatten([inst, (1, 2)], namespace=flat_ns, none_is_leaf=bool(j % 2)), None))

    sim.spawn('observer', observer)
    desc.update({'class': cls.__name__, 'racers': n, 'global': use_global})
    U.HOOK = cb
    sim.run()
    U.HOOK = None
    winners = [i for i, o in enumerate(outcomes) if o == 'ok']
    if sim.deadlock is None and not sim.engine_blocks:
        if len(winners) != 1 or any(o not in ('ok', 'ValueError') for o in outcomes):
            viol('not-exactly-once', 'T2:%s' % cls.__name__, 'racing registrations of one (type, namespace): outcomes %r (exactly one must succeed, the others raise ValueError)' % (outcomes,))
        else:
            w = funcs[winners[0]]
            h = optree.register_pytree_node.get(cls, namespace=ns if not use_global else '')
            if h is None or h.flatten_func != w.flatten:
                viol('mirror-mismatch', 'T2:%s' % cls.__name__, 'mirror does not hold the winning registration')
            if V is not None:
                eng = engine_registry_model()
                for nil in (False, True):
                    e = eng.get((nil, None if use_global else 'race', cls))
                    if e is None or e[0] != w.flatten or e[1] != w.unflatten:
                        viol('engine-mismatch', 'T2:%s' % cls.__name__, 'engine registry (none_is_leaf=%s) does not hold the winning registration' % nil)
            calls0 = w.flatten_calls
            optree.tree_flatten(inst, namespace=flat_ns)
            if w.flatten_calls != calls0 + 1:
                viol('wrong-winner', 'T2:%s' % cls.__name__, 'flatten does not use the winning registration')
        seen_custom = False
        for j, o in enumerate(obs_results):
            if o[0] == 'exc':
                if not isinstance(o[1], EngineWouldBlock):
                    viol('not-sequential', 'T2:observer', 'observer flatten raised %s' % describe_outcome(o))
                continue
            # only registrations happen in this template, so once one flatten of the observer saw the type registered,
            # every LATER flatten of the same thread must too — for either value of none_is_leaf (a registration that is
            # published to the two engine variants in two steps breaks this)
            is_custom = 'CustomTreeNode' in repr(o[1][1])
            if seen_custom and not is_custom:
                viol('torn', 'T2:variants', 'observer saw %s registered in flatten #%d but not in the later flatten #%d (none_is_leaf=%s): %r' % (
                    cls.__name__, j - 1, j, bool(j % 2), o[1][1]))
            seen_custom = seen_custom or is_custom

    def cleanup():
        if winners:
            optree.unregister_pytree_node(cls, namespace=ns)
    return {'cleanup': cleanup}


def make_instance(cls):
    if cls in (U.NTM,):
        return cls(U.Leaf(1), U.Leaf(2))
    if cls is U.NT2:
        return cls(U.Leaf(1))
    if cls is U.TM or type(cls) is U.MetaHook and issubclass(cls, tuple):
        return cls((U.Leaf(1), U.Leaf(2)))
    if cls is U.STRUCTSEQ_TYPES[0]:
        return U.make_structseq([U.Leaf(i) for i in range(9)])
    return cls([U.Leaf(1), U.Leaf(2)], 0)


# -------------------------------------------------------------------------------------------------- T3
class PairBox:
    """What the mapped function of a pairing operation returns: opaque to the harness's tree walkers (an unregistered custom
    instance is a leaf and arrives here whole; its interior is not a pairing)."""
    __slots__ = ('x', 'y')

    def __init__(self, x, y):
        self.x = x
        self.y = y


def tpl_T3(sim, tape, viol, keys, desc, cb, job):
    """flatten || unregister/re-register of a type that occurs in the tree: old-or-new per node."""
    cls = U.CA
    ns = 'ns'
    f_old = U.Funcs(cls, 1, tape.draw(4, 'style'))
    optree.register_pytree_node(cls, f_old.flatten, f_old.unflatten, namespace=ns)
    others = Registry()
    others.register(U.CB, ns, style=tape.draw(4, 'style-b'))
    ctx = gen.Ctx(kinds=('list', 'tuple', 'dict', 'custom', 'odict', 'nt'), custom_classes=(U.CA, U.CA, U.CB))
    tree = gen.gen_tree(tape, 6 + tape.draw(20, 'budget'), ctx)
    tree = [tree, U.CA([ctx.leaf(), U.CA([ctx.leaf()], 1)], 2), {'k': U.CA([], 0)}, U.CA([ctx.leaf(), ctx.leaf(), ctx.leaf()], 3), (U.CA([ctx.leaf(), ctx.leaf()], 4),)]
    n_changes = 1 + tape.draw(3, 'n-changes')
    reverse_some = bool(tape.draw(2, 't3-reverse'))
    same_meta = tape.draw(3, 't3-same-meta') == 2
    # a second operand for the operations that pair two trees: same shape, leaf i is paired with leaf i + 100000
    tree_b = optree.tree_map(lambda x: U.Leaf(x.i + 100000), tree, namespace=ns)
    timeline = [(-1, -1, 1)]  # (earliest step, latest step, rid or None) — state valid from here on
    current = {'f': f_old}
    regs = {1: f_old}

    def registrar(task):
        rid = 2
        for _ in range(n_changes):
            s0 = sim.steps
            optree.unregister_pytree_node(cls, namespace=ns)
            timeline.append((s0, sim.steps, None))
            current['f'] = None
            if same_meta:
                # the replacement produces EQUAL metadata (same registration id burnt in, same style): only the order of the
                # children tells old from new, so the engine's metadata comparison cannot notice a mix-up by itself
                f = U.Funcs(cls, 1, f_old.style)
                f.reverse = bool(rid % 2 == 0)
            else:
                f = U.Funcs(cls, rid, (rid + f_old.style) % 4)
                f.reverse = bool(rid % 2 == 0) if reverse_some else False  # every other registration lists the children in reverse
            regs[rid] = f
            s0 = sim.steps
            optree.register_pytree_node(cls, f.flatten, f.unflatten, namespace=ns)
            timeline.append((s0, sim.steps, 1 if same_meta else rid))
            current['f'] = f
            rid += 1

    n_fl = 1 + tape.draw(2, 'n-flatteners')
    windows = []
    pairs = []

    def flattener(i):
        how = tape.draw(5, 'fl-how')
        nil = bool(tape.draw(2, 'fl-nil'))

        def pred(x):
            U._h('is_leaf')
            return False

        def body(task):
            for _ in range(2):
                a = sim.steps
                try:
                    if how == 0:
                        leaves, spec = optree.tree_flatten(tree, is_leaf=pred, namespace=ns, none_is_leaf=nil)
                    elif how == 1:
                        _, leaves, spec = optree.tree_flatten_with_path(tree, is_leaf=pred, namespace=ns, none_is_leaf=nil)
                    elif how == 2:
                        leaves = list(optree.tree_iter(tree, is_leaf=pred, namespace=ns, none_is_leaf=nil))
                        spec = None
                    else:
                        # operations that flatten one tree and then push the other(s) through flatten_up_to: with the registry
                        # changing in between they may REFUSE (the engine notices that a node's registration was replaced), but
                        # they must never pair a leaf with anything but its partner
                        if how == 3:
                            res = optree.tree_map(PairBox, tree, tree_b, namespace=ns, none_is_leaf=nil)
                        else:
                            res = optree.tree_broadcast_map(PairBox, tree, tree_b, namespace=ns, none_is_leaf=nil)
                        pairs.append((a, sim.steps, how, res, None))
                        continue
                    windows.append((a, sim.steps, how, leaves, spec, None))
                except BaseException as e:  # noqa: BLE001
                    if how >= 3:
                        pairs.append((a, sim.steps, how, None, e))
                    else:
                        windows.append((a, sim.steps, how, None, None, e))
        return body

    set_policy(sim, tape, job)
    sim.spawn('registrar', registrar)
    for i in range(n_fl):
        sim.spawn('flatten%d' % i, flattener(i))
    desc.update({'tree': gen.describe(tree)[:200], 'changes': n_changes})
    U.HOOK = cb
    sim.run()
    U.HOOK = None
    if sim.deadlock is None and not sim.engine_blocks:
        for (a, b, how, leaves, spec, err) in windows:
            if err is not None:
                if not isinstance(err, EngineWouldBlock):
                    viol('not-sequential', 'T3:flatten', 'flatten overlapping a registry change raised %s: %s' % (type(err).__name__, err))
                continue
            allowed = allowed_states(timeline, a, b)
            # leaves that are CA instances => the node was seen as unregistered (leaf)
            for x in leaves:
                if isinstance(x, U.CA) and None not in allowed:
                    viol('torn', 'T3:leaf', 'a %s instance came back as a leaf although the type was registered during the whole flatten window [%d,%d] (timeline %r)' % (cls.__name__, a, b, timeline))
            if spec is not None:
                try:
                    rebuilt = spec.unflatten(leaves)
                except Exception as e:  # noqa: BLE001
                    viol('torn', 'T3:unflatten', 'treespec from an overlapping flatten cannot unflatten its own leaves: %s: %s' % (type(e).__name__, e))
                    continue
                for node in walk(rebuilt):
                    if isinstance(node, U.CA) and hasattr(node, 'built_by'):
                        uf, meta = node.built_by
                        if uf != meta:
                            viol('torn', 'T3:node', 'node flattened with registration %r is rebuilt by registration %r (torn registration)' % (meta, uf))
                        if meta not in allowed:
                            viol('torn', 'T3:node', 'node attributed to registration %r which was not current at any instant of the flatten window [%d,%d]; allowed %r' % (meta, a, b, sorted(x for x in allowed if x)))
        for (a, b, how, res, err) in pairs:
            sim.probes['t3:pairing-op'] += 1
            if err is not None:
                if isinstance(err, EngineWouldBlock):
                    continue
                if isinstance(err, ValueError) and not (None not in allowed_states(timeline, a, b) and len(allowed_states(timeline, a, b)) == 1):
                    sim.probes['t3:pairing-op-refused'] += 1  # the registry changed inside the window: refusing is a sequentially explainable outcome
                    continue
                viol('not-sequential', 'T3:map', 'a pairing operation overlapping a registry change raised %s: %s' % (type(err).__name__, err))
                continue
            for box in walk(res):
                if isinstance(box, PairBox) and isinstance(box.x, U.Leaf) and isinstance(box.y, U.Leaf):
                    pr = (box.x, box.y)
                    if pr[1].i != pr[0].i + 100000:
                        viol('torn', 'T3:map', 'tree_map / tree_broadcast_map overlapping a re-registration paired leaf L%d with L%d (its partner is L%d): '
                             'one operand was flattened by the old registration, the other by the new one' % (pr[0].i, pr[1].i, pr[0].i + 100000))
                        break
        # quiescent: the final registration serves
        f = current['f']
        c0 = f.flatten_calls
        optree.tree_flatten(U.CA([], 0), namespace=ns)
        if f.flatten_calls != c0 + 1:
            viol('wrong-winner', 'T3:final', 'after the run the last completed registration is not the one used')

    def cleanup():
        if current['f'] is not None:
            optree.unregister_pytree_node(cls, namespace=ns)
        others.unregister_all()
    return {'cleanup': cleanup}


# -------------------------------------------------------------------------------------------------- T11
def tpl_T11(sim, tape, viol, keys, desc, cb, job):
    """Each task works on treespecs of its OWN (nothing is shared between the tasks): comparisons / prefix tests / broadcasts
    of two treespecs whose dict-like nodes hold the same keys in another stored order (OrderedDicts filled in another order),
    with keys that have Python-level dunders.  Whatever scratch state an operation uses belongs to the call: results must equal
    the ones computed alone."""
    def pair(seed_keys, sizes):
        ks = [U.Key(i) for i in seed_keys]
        kids = [tuple(U.Leaf(100 * j + i) for i in range(n)) if n != 1 else U.Leaf(100 * j) for j, n in enumerate(sizes)]
        a = OrderedDict(zip(ks, kids))
        b = OrderedDict(reversed(list(zip(ks, kids))))
        if tape.draw(2, 't11-nest'):
            a, b = [a, {'w': 0}], [b, {'w': 0}]
        return optree.tree_structure(a), optree.tree_structure(b), a, b

    n_tasks = 2 + tape.draw(2, 't11-tasks')
    work = []
    for t in range(n_tasks):
        sizes = [(1, 3), (3, 1), (2, 2), (1, 1, 4), (4, 1, 1)][tape.draw(5, 't11-sizes')]
        work.append(pair(range(10 * t + 1, 10 * t + 1 + len(sizes)), sizes))
    ops = (('is_prefix', lambda A, B, a, b: A.is_prefix(B)), ('is_suffix', lambda A, B, a, b: A.is_suffix(B)), ('le', lambda A, B, a, b: A <= B),
           ('ge', lambda A, B, a, b: A >= B), ('lt', lambda A, B, a, b: A < B), ('eq', lambda A, B, a, b: A == B),
           ('common_suffix', lambda A, B, a, b: repr(A.broadcast_to_common_suffix(B))), ('flatten_up_to', lambda A, B, a, b: gen.describe(A.flatten_up_to(b))),
           ('broadcast_common', lambda A, B, a, b: gen.describe(optree.tree_broadcast_common(a, b))), ('prefix_errors', lambda A, B, a, b: len(optree.prefix_errors(a, b))))
    progs = [[tape.draw(len(ops), 't11-op') for _ in range(1 + tape.draw(3, 't11-nops'))] for _ in range(n_tasks)]

    def run_one(t, oi):
        try:
            return ('ok', ops[oi][1](*work[t]))
        except BaseException as e:  # noqa: BLE001
            return ('exc', '%s: %s' % (type(e).__name__, str(e)[:80]))

    U.HOOK = None
    solo = {(t, oi): run_one(t, oi) for t in range(n_tasks) for oi in set(progs[t])}
    got = []

    def body(t):
        def run(task):
            for oi in progs[t]:
                got.append((t, oi, run_one(t, oi)))
        return run

    set_policy(sim, tape, job)
    for t in range(n_tasks):
        sim.spawn('t%d' % t, body(t))
    desc.update({'programs': [[ops[o][0] for o in p] for p in progs]})
    U.HOOK = cb
    sim.run()
    U.HOOK = None
    if sim.deadlock is None and not sim.engine_blocks:
        sim.probes['t11:operations'] += len(got)
        for t, oi, res in got:
            if res != solo[(t, oi)] and not (res[0] == 'exc' and 'EngineWouldBlock' in res[1]):
                viol('not-sequential', 'T11:%s' % ops[oi][0], 'an operation on treespecs that no other task touches gave %r; run alone it gives %r' % (res, solo[(t, oi)]))
                break

    def cleanup():
        pass
    return {'cleanup': cleanup}


# -------------------------------------------------------------------------------------------------- T13
def tpl_T13(sim, tape, viol, keys, desc, cb, job):
    """What a class IS does not depend on WHICH THREAD asked about another class before.  Task B makes a class X; task A
    classifies it; B drops X and collects it (the eviction of X's cache entry runs on B's thread), then makes classes of
    the OPPOSITE kind until one is allocated at X's address; A classifies that class.  Gates (simulated locks) order the
    phases; everything else is up to the scheduler.  Oracle: the definition (a namedtuple class is a namedtuple)."""
    x_is_nt = bool(tape.draw(2, 't13-direction'))
    g1, g2, g3 = SimLock(sim, 'gate1'), SimLock(sim, 'gate2'), SimLock(sim, 'gate3')
    for g in (g1, g2, g3):
        g.acquire()  # held by the controller; a task's release() opens the gate
    box = {}
    got = []

    def mk(nt):
        if nt:
            return collections.namedtuple('T13NT', ['a', 'b'])
        return type('T13Plain', (tuple,), {'__slots__': ()})

    def ask(cls, nt):
        inst = cls(1, 2) if nt else cls((1, 2))
        return (len(optree.tree_leaves(inst)), optree.is_namedtuple(inst), optree.is_namedtuple_class(cls), optree.tree_structure(inst).num_nodes)

    def task_b(task):
        box['X'] = mk(x_is_nt)
        g1.release()
        g2.acquire()
        address = id(box['X'])
        del box['X']
        gc.collect()  # the class (always in a reference cycle) dies here, on B's thread
        keep = []
        for _ in range(24):
            cls = mk(not x_is_nt)
            box['Y'] = cls  # whether or not the allocator hands the address out again, A asks about a class of the other kind:
            if id(cls) == address:  # the recorded run is the same either way (replay must not depend on the allocator)
                box['reused'] = True
                break
            keep.append(cls)
        del keep
        g3.release()

    def task_a(task):
        g1.acquire()
        got.append(('X', x_is_nt, ask(box['X'], x_is_nt)))
        g2.release()
        g3.acquire()
        cls = box.pop('Y')
        got.append(('Y', not x_is_nt, ask(cls, not x_is_nt)))

    set_policy(sim, tape, job)
    sim.gc_rate = 0  # collections are explicit here: they decide on which thread the class dies
    sim.spawn('a', task_a)
    sim.spawn('b', task_b)
    desc.update({'x_is_namedtuple': x_is_nt})
    was = gc.isenabled()
    gc.disable()
    U.HOOK = cb
    try:
        sim.run()
    finally:
        U.HOOK = None
        if was:
            gc.enable()
    if sim.deadlock is None and not sim.engine_blocks:
        sim.probes['t13:runs'] += 1
        if box.get('reused'):
            sim.probes['t13:address-reused'] += 1
        for which, nt, res in got:
            want = (2, True, True, 3) if nt else (1, False, False, 1)
            if res != want:
                viol('not-sequential', 'T13:%s' % which, 'class %s (%s) asked on task A after another class lived at its address and died on task B: '
                     '(leaves, is_namedtuple, is_namedtuple_class, nodes) = %r, by definition %r' % (which, 'namedtuple' if nt else 'plain tuple subclass', res, want))
                break

    def cleanup():
        box.clear()
    return {'cleanup': cleanup}


# -------------------------------------------------------------------------------------------------- T12
def tpl_T12(sim, tape, viol, keys, desc, cb, job):
    """Every task asks questions about the SAME class that no one has classified yet (a namedtuple subclass / a plain tuple
    subclass made inside the run, with a metaclass whose attribute lookup is a callback): the first classification is parked
    inside the hook while the others ask.  What a class IS does not depend on who asks first: every answer equals the one a
    twin class gives alone."""
    base = (U.NT1, U.NT2, tuple)[tape.draw(3, 't12-base')]
    fresh = U.MetaGAHook('FreshNT12', (base,), {'__slots__': ()} if base is not tuple else {})
    twin = U.MetaGAHook('FreshNT12', (base,), {'__slots__': ()} if base is not tuple else {})
    nf = len(getattr(base, '_fields', (0, 0)))

    def mk(cls):
        return cls(*[U.Leaf(i) for i in range(nf)]) if base is not tuple else cls([U.Leaf(i) for i in range(nf)])

    ops = (('flatten', lambda c: (lambda r: (len(r[0]), repr(r[1]).replace(c.__name__, 'C')))(optree.tree_flatten([mk(c)]))),
           ('is_namedtuple', lambda c: optree.is_namedtuple(mk(c))), ('is_namedtuple_class', lambda c: optree.is_namedtuple_class(c)),
           ('namedtuple_fields', lambda c: optree.namedtuple_fields(c)), ('is_structseq_class', lambda c: optree.is_structseq_class(c)),
           ('leaves', lambda c: len(optree.tree_leaves({'k': mk(c)}))), ('is_leaf', lambda c: optree.tree_is_leaf(mk(c))),
           ('one_level', lambda c: len(optree.tree_flatten_one_level(mk(c))[0])), ('map', lambda c: gen.describe(tuple(optree.tree_map(lambda a, b: a, mk(c), mk(c))))),
           ('up_to', lambda c: len(optree.tree_structure(mk(c)).flatten_up_to(mk(c)))))

    def run_one(c, oi):
        try:
            return ('ok', ops[oi][1](c))
        except BaseException as e:  # noqa: BLE001
            return ('exc', '%s: %s' % (type(e).__name__, str(e)[:80].replace(c.__name__, 'C')))

    n_tasks = 2 + tape.draw(2, 't12-tasks')
    progs = [[tape.draw(len(ops), 't12-op') for _ in range(1 + tape.draw(2, 't12-nops'))] for _ in range(n_tasks)]
    U.HOOK = None
    solo = {oi: run_one(twin, oi) for p in progs for oi in p}
    got = []

    def body(t):
        def run(task):
            for oi in progs[t]:
                got.append((t, oi, run_one(fresh, oi)))
        return run

    set_policy(sim, tape, job)
    for t in range(n_tasks):
        sim.spawn('t%d' % t, body(t))
    desc.update({'base': base.__name__, 'programs': [[ops[o][0] for o in p] for p in progs]})
    U.HOOK = cb
    sim.run()
    U.HOOK = None
    if sim.deadlock is None and not sim.engine_blocks:
        sim.probes['t12:operations'] += len(got)
        for t, oi, res in got:
            if res != solo[oi] and not (res[0] == 'exc' and 'EngineWouldBlock' in res[1]):
                viol('not-sequential', 'T12:%s' % ops[oi][0], 'a question about a class whose first classification was in progress in another task gave %r; '
                     'a twin class asked alone gives %r' % (res, solo[oi]))
                break

    def cleanup():
        pass
    return {'cleanup': cleanup}


# -------------------------------------------------------------------------------------------------- T10
def tpl_T10(sim, tape, viol, keys, desc, cb, job):
    """One task runs operations that FAIL with a shared treespec as their other operand (key-set / kind / arity mismatches in
    broadcast_to_common_suffix, flatten_up_to, is_prefix, compose-then-compare ...); the other observes that shared treespec.
    A failing operation reads its operands; whatever it does to build its error message, nobody else may see the operand
    changed, not even for the duration of a key comparison.  Keys have Python-level dunders (switch points inside sorts)."""
    mk = (dict, OrderedDict, lambda it: defaultdict(int, it))[tape.draw(3, 't10-kind')]
    k1, k2, k3 = U.Key(1), U.Key(2), U.Key(3)
    shared_tree = mk([(k2, U.Leaf(1)), (k1, (U.Leaf(2), U.Leaf(3)))])
    if tape.draw(2, 't10-nest'):
        shared_tree = [shared_tree, {'z': mk([(k3, U.Leaf(4)), (k1, U.Leaf(5))])}]
    S = optree.tree_structure(shared_tree)
    other_tree = mk([(k3, U.Leaf(6)), (k1, (U.Leaf(7), U.Leaf(8)))])  # another key set
    if isinstance(shared_tree, list):
        other_tree = [other_tree, {'z': mk([(k2, U.Leaf(9)), (k1, U.Leaf(10))])}]
    T = optree.tree_structure(other_tree)

    def observe_s():
        out = []
        for f in (lambda: repr(S), lambda: hash(S), lambda: S.entries(), lambda: S.paths(), lambda: [repr(c) for c in S.children()],
                  lambda: gen.describe(S.unflatten(list(range(S.num_leaves)))), lambda: S == optree.tree_structure(shared_tree),
                  lambda: repr(pickle.loads(pickle.dumps(S))), lambda: S.flatten_up_to(shared_tree) is not None):
            try:
                out.append(f())
            except BaseException as e:  # noqa: BLE001
                out.append('raised %s: %s' % (type(e).__name__, str(e)[:80]))
        return out

    U.HOOK = None
    solo = observe_s()
    failing = [lambda: T.broadcast_to_common_suffix(S), lambda: S.broadcast_to_common_suffix(T), lambda: T.flatten_up_to(shared_tree),
               lambda: optree.tree_broadcast_common(other_tree, shared_tree), lambda: optree.tree_map(lambda a, b: a, other_tree, shared_tree),
               lambda: optree.prefix_errors(other_tree, shared_tree) and None, lambda: T.is_prefix(S), lambda: T.compose(S) == S]
    which = [tape.draw(len(failing), 't10-op') for _ in range(1 + tape.draw(2, 't10-nops'))]
    seen = []

    def failer(task):
        for w in which:
            try:
                failing[w]()
            except (ValueError, TypeError, RuntimeError):
                pass

    def observer(task):
        for _ in range(2):
            seen.append(observe_s())
            sim.point('t10:between')

    set_policy(sim, tape, job)
    sim.spawn('failer', failer)
    sim.spawn('observer', observer)
    desc.update({'tree': gen.describe(shared_tree)[:160], 'ops': which})
    U.HOOK = cb
    sim.run()
    U.HOOK = None
    if sim.deadlock is None and not sim.engine_blocks:
        sim.probes['t10:observations'] += len(seen)
        for got in seen + [observe_s()]:
            if got != solo:
                diff = [(a, b) for a, b in zip(solo, got) if a != b][:2]
                viol('not-sequential', 'T10:shared-operand', 'a treespec that is only the OTHER operand of failing operations in another task looked different '
                     'to a concurrent observer: %r' % (diff,))
                break

    def cleanup():
        pass
    return {'cleanup': cleanup}


# -------------------------------------------------------------------------------------------------- T9
def tpl_T9(sim, tape, viol, keys, desc, cb, job):
    """ONE replacement of a registration by one with the same metadata and the opposite child order || one operation that
    flattens a first operand and pushes a second one through flatten_up_to (tree_map with two trees, tree_broadcast_map,
    tree_transpose_map, treespec.flatten_up_to).  Small on purpose: a single-switch sweep covers every yield point of the
    operation.  Outcomes explainable sequentially: the pairing of leaf i with leaf i + 100000 everywhere, or a refusal."""
    cls = U.CA
    ns = 'ns'
    style = tape.draw(4, 'style')
    f_old = U.Funcs(cls, 1, style)
    optree.register_pytree_node(cls, f_old.flatten, f_old.unflatten, namespace=ns)
    current = {'f': f_old}
    n_nodes = 2 + tape.draw(2, 't9-nodes')
    k = [0]

    def leaf():
        k[0] += 1
        return U.Leaf(k[0])

    tree = [U.CA([leaf() for _ in range(2 + tape.draw(2, 't9-arity'))], j) for j in range(n_nodes)]
    if tape.draw(2, 't9-wrap'):
        tree = {'b': tree[0], 'a': tuple(tree[1:])}
    tree_b = optree.tree_map(lambda x: U.Leaf(x.i + 100000), tree, namespace=ns)
    how = tape.draw(4, 't9-how')
    results = []

    def registrar(task):
        optree.unregister_pytree_node(cls, namespace=ns)
        current['f'] = None
        f = U.Funcs(cls, 1, style)
        f.reverse = True
        optree.register_pytree_node(cls, f.flatten, f.unflatten, namespace=ns)
        current['f'] = f

    def operation(task):
        try:
            if how == 0:
                res = optree.tree_map(PairBox, tree, tree_b, namespace=ns)
            elif how == 1:
                res = optree.tree_broadcast_map(PairBox, tree, tree_b, namespace=ns)
            elif how == 2:
                spec = optree.tree_structure(tree, namespace=ns)
                sim.point('t9:between')
                res = [PairBox(x, y) for x, y in zip(optree.tree_leaves(tree, namespace=ns), spec.flatten_up_to(tree_b))]
            else:
                res = optree.tree_map_(lambda x, y: results.append(('pair', PairBox(x, y))), tree, tree_b, namespace=ns)
                res = [p for tag, p in results if tag == 'pair']
            results.append(('done', res))
        except BaseException as e:  # noqa: BLE001
            results.append(('exc', e))

    set_policy(sim, tape, job)
    sim.spawn('registrar', registrar)
    sim.spawn('operation', operation)
    desc.update({'tree': gen.describe(tree)[:200], 'how': how})
    U.HOOK = cb
    sim.run()
    U.HOOK = None
    if sim.deadlock is None and not sim.engine_blocks:
        for tag, res in results:
            if tag == 'exc':
                if isinstance(res, EngineWouldBlock):
                    continue
                if isinstance(res, (ValueError, TypeError)):
                    sim.probes['t9:refused'] += 1
                    continue
                viol('not-sequential', 'T9:op', 'a pairing operation overlapping a re-registration raised %s: %s' % (type(res).__name__, res))
            elif tag == 'done':
                sim.probes['t9:completed'] += 1
                for box in walk(res):
                    if isinstance(box, PairBox) and isinstance(box.x, U.Leaf) and isinstance(box.y, U.Leaf) and box.y.i != box.x.i + 100000:
                        viol('torn', 'T9:pairing', 'an operation overlapping the replacement of a registration (same metadata, opposite child order) paired '
                             'leaf L%d with L%d (its partner is L%d): the operands were flattened by different registrations' % (box.x.i, box.y.i, box.x.i + 100000))
                        break

    def cleanup():
        if current['f'] is not None:
            optree.unregister_pytree_node(cls, namespace=ns)
    return {'cleanup': cleanup}


# -------------------------------------------------------------------------------------------------- T8
class FailingHook(Exception):
    pass


def tpl_T8(sim, tape, viol, keys, desc, cb, job):
    """A registration that FAILS in a user hook it reaches (the warning hook of a namedtuple / struct-sequence class)
    || flattens of instances of that very class.  The registration never completes, so every sequential order of the
    operations shows the class as what it was before (a namedtuple node): an overlapping flatten that sees a custom node
    saw a registration that never happened."""
    ns = 'ns'
    fresh = type('FreshNT8', (collections.namedtuple('FreshNT8Base', ['p', 'q']),), {'__slots__': ()})
    which = tape.draw(3, 't8-class')
    cls = (fresh, U.NTM, U.STRUCTSEQ_TYPES[0])[which]
    inst = cls(U.Leaf(1), [U.Leaf(2)]) if which < 2 else U.make_structseq([U.Leaf(i) for i in range(9)])
    want_kind = optree.tree_structure(inst, namespace=ns).kind
    f = U.Funcs(cls, 1, tape.draw(4, 'style'))
    attempts = 1 + tape.draw(2, 't8-attempts')
    outcomes = []
    seen = []
    old_show = warnings.showwarning

    def failing_show(message, category, filename, lineno, file=None, line=None):
        with sim.callback():
            sim.point('cb:showwarning')
        raise FailingHook('the warning hook refuses')

    def registrar(task):
        for _ in range(attempts):
            warnings.showwarning = failing_show
            try:
                optree.register_pytree_node(cls, f.flatten, f.unflatten, namespace=ns)
                outcomes.append('ok')
            except FailingHook:
                outcomes.append('failed')
            except BaseException as e:  # noqa: BLE001
                outcomes.append('other:%s' % type(e).__name__)
            finally:
                warnings.showwarning = old_show

    def flattener(i):
        how = tape.draw(3, 't8-how')

        def body(task):
            for _ in range(2 + attempts):
                try:
                    if how == 0:
                        k = optree.tree_structure(inst, namespace=ns).kind
                    elif how == 1:
                        k = optree.tree_flatten_with_path([inst], namespace=ns)[2].child(0).kind
                    else:
                        h = optree.register_pytree_node.get(cls, namespace=ns)
                        k = h.kind if h is not None else None
                    seen.append((how, k, f.flatten_calls))
                except BaseException as e:  # noqa: BLE001
                    seen.append((how, 'raised %s: %s' % (type(e).__name__, e), f.flatten_calls))
                sim.point('t8:between')
        return body

    set_policy(sim, tape, job)
    sim.spawn('registrar', registrar)
    for i in range(1 + tape.draw(2, 't8-flatteners')):
        sim.spawn('flatten%d' % i, flattener(i))
    desc.update({'class': cls.__name__, 'attempts': attempts})
    U.HOOK = cb
    sim.run()
    U.HOOK = None
    registered = 'ok' in outcomes
    if sim.deadlock is None and not sim.engine_blocks:
        sim.probes['t8:registration-failed-in-hook'] += outcomes.count('failed')
        for o in outcomes:
            if o.startswith('other'):
                viol('not-sequential', 'T8:register', 'a registration whose warning hook raises ended with %s instead of the hook\'s own exception' % o)
        if not registered:
            for how, k, calls in seen:
                if k != want_kind or calls:
                    viol('torn', 'T8:flatten', 'a flatten / lookup overlapping a registration that FAILED saw %s (custom flatten calls so far: %d); '
                         'before and after the failed call the class is a %s node' % (k, calls, want_kind))
                    break
            if optree.tree_structure(inst, namespace=ns).kind != want_kind or f.flatten_calls:
                viol('not-atomic', 'T8:final', 'after the failed registration the class is no longer a %s node' % want_kind)

    def cleanup():
        if registered:
            optree.unregister_pytree_node(cls, namespace=ns)
    return {'cleanup': cleanup}


def allowed_states(timeline, a, b):
    """States that may have been current at some instant of [a, b].  State i becomes effective somewhere in
    [lo_i, hi_i] and stops being effective somewhere in [lo_{i+1}, hi_{i+1}]."""
    out = set()
    for i, (lo, hi, st) in enumerate(timeline):
        end = timeline[i + 1][1] if i + 1 < len(timeline) else float('inf')
        if lo <= b and end >= a:
            out.add(st)
    return out


# -------------------------------------------------------------------------------------------------- T4
def tpl_T4(sim, tape, viol, keys, desc, cb, job):
    scn = Scn(tape, ns='ns', budget=6 + tape.draw(30, 'budget'))
    U.HOOK = None
    expect = list(optree.tree_iter(scn.tree, is_leaf=scn.pred, **scn.kw))
    it = optree.tree_iter(scn.tree, is_leaf=scn.pred, **scn.kw)
    n = 2 + tape.draw(2, 'n-consumers')
    got = [[] for _ in range(n)]
    errs = []

    def consumer(i):
        def body(task):
            while True:
                try:
                    x = next(it)
                except StopIteration:
                    return
                except BaseException as e:  # noqa: BLE001
                    errs.append(e)
                    return
                got[i].append(x)
                sim.point('consumer:got')
        return body

    set_policy(sim, tape, job)
    for i in range(n):
        sim.spawn('consumer%d' % i, consumer(i))
    desc.update({'tree': gen.describe(scn.tree)[:200], 'consumers': n, 'leaves': len(expect)})
    U.HOOK = cb
    sim.run()
    U.HOOK = None
    if sim.deadlock is None and not sim.engine_blocks:
        for e in errs:
            if not isinstance(e, EngineWouldBlock):
                viol('not-sequential', 'T4:next', 'next() on the shared iterator raised %s: %s' % (type(e).__name__, e))
        allgot = [x for g in got for x in g]
        ids_got = collections.Counter(id(x) for x in allgot)
        ids_exp = collections.Counter(id(x) for x in expect)
        if not errs and ids_got != ids_exp:
            dup = sum(1 for k, v in ids_got.items() if v > ids_exp.get(k, 0))
            missing = sum(1 for k, v in ids_exp.items() if ids_got.get(k, 0) < v)
            viol('not-exactly-once', 'T4:iterator', 'shared iterator delivered %d leaves for %d expected: %d duplicated/unknown, %d missing' % (len(allgot), len(expect), dup, missing))
        keys.add('T4|split|%s' % (tuple(min(len(g), 3) for g in got),))

    def cleanup():
        scn.close()
    return {'cleanup': cleanup}


# -------------------------------------------------------------------------------------------------- T5
T5_OPS = ('hash', 'repr', 'eq', 'pickle', 'copy', 'inspect', 'is_prefix', 'unflatten', 'walk', 'traverse', 'transform', 'compose',
          'common_suffix', 'flatten_up_to', 'from_collection')


def tpl_T5(sim, tape, viol, keys, desc, cb, job):
    ctx_kinds = ('dict', 'odict', 'ddict', 'custom', 'list', 'nt', 'tuple')
    scn = Scn(tape, ns='ns', kinds=ctx_kinds)
    n_tasks = 2 + tape.draw(2, 'n-tasks')
    progs = [[T5_OPS[tape.draw(len(T5_OPS), 'opname')] for _ in range(2 + tape.draw(3, 'n-ops'))] for _ in range(n_tasks)]
    solo = solo_refs(scn, [n for p in progs for n in p])
    # the tasks share treespec OBJECTS that nobody has used yet (equal to the ones the solo references were computed on): whatever
    # a treespec caches on first use is then built while another task is looking
    if tape.draw(2, 't5-fresh-specs'):
        scn.spec = optree.tree_structure(scn.tree, **scn.kw)
        scn.prefix_spec = optree.tree_structure(scn.tree, is_leaf=lambda x: id(x) in scn.stop_ids, **scn.kw)
        scn.other_spec = optree.tree_structure(scn.other, **scn.kw)
        sim.probes['t5:fresh-treespecs'] += 1
    set_policy(sim, tape, job)
    results = []
    for i, p in enumerate(progs):
        res = []
        results.append(res)
        sim.spawn('t%d' % i, run_program(sim, scn, p, res))
    desc.update({'programs': progs, 'tree': gen.describe(scn.tree)[:200]})
    U.HOOK = cb
    sim.run()
    U.HOOK = None
    if sim.deadlock is None and not sim.engine_blocks:
        for i, p in enumerate(progs):
            compare_with_solo(viol, 'T5', 't%d' % i, p, results[i], solo)

    def cleanup():
        scn.close()
    return {'cleanup': cleanup}


# -------------------------------------------------------------------------------------------------- T7
def tpl_T7(sim, tape, viol, keys, desc, cb, job):
    """unregister || register of the SAME (type, namespace): the outcome must equal one of the two serial orders."""
    pool = (U.CD, U.NTM, U.MetaHook('FreshTM7', (tuple,), {}), U.PM)
    cls = pool[tape.draw(len(pool), 't7-cls')]
    ns = 'race7'
    f_old = U.Funcs(cls, 800, tape.draw(4, 'style'))
    f_new = U.Funcs(cls, 801, tape.draw(4, 'style2'))
    U.HOOK = None
    optree.register_pytree_node(cls, f_old.flatten, f_old.unflatten, namespace=ns)
    res = {}
    inst = make_instance(cls)
    set_policy(sim, tape, job)

    def unreg(task):
        try:
            optree.unregister_pytree_node(cls, namespace=ns)
            res['unregister'] = 'ok'
        except ValueError:
            res['unregister'] = 'ValueError'

    def reg(task):
        try:
            optree.register_pytree_node(cls, f_new.flatten, f_new.unflatten, namespace=ns)
            res['register'] = 'ok'
        except ValueError:
            res['register'] = 'ValueError'

    obs = []

    lookups = []

    def observer(task):
        for _ in range(2):
            obs.append(outcome(lambda s: optree.tree_flatten([inst], namespace=ns, none_is_leaf=bool(len(obs) % 2)), None))
            # the Python-visible registry for the very key that is being unregistered / registered: at any instant the
            # answer is the old entry, the new entry or None — and a one-level flatten either works or says "leaf"
            lookups.append(outcome(lambda s: optree.register_pytree_node.get(cls, namespace=ns), None))
            lookups.append(outcome(lambda s: optree.tree_flatten_one_level(inst, namespace=ns), None))
            lookups.append(outcome(lambda s: cls in optree.register_pytree_node.get(namespace=ns), None))

    order = tape.draw(2, 't7-order')
    for name, fn in ((('unregister', unreg), ('register', reg)) if order == 0 else (('register', reg), ('unregister', unreg))):
        sim.spawn(name, fn)
    sim.spawn('observer', observer)
    desc.update({'class': cls.__name__})
    U.HOOK = cb
    sim.run()
    U.HOOK = None
    final_f = None
    if sim.deadlock is None and not sim.engine_blocks:
        pair = (res.get('unregister'), res.get('register'))
        if pair == ('ok', 'ok'):
            final_f = f_new  # serial order: unregister ; register
        elif pair == ('ok', 'ValueError'):
            final_f = None   # serial order: register (fails, still registered) ; unregister
        else:
            viol('not-sequential', 'T7:%s' % cls.__name__, 'unregister || register of one (type, namespace): outcomes %r match no serial order' % (res,))
            pair = None
        if pair is not None:
            h = optree.register_pytree_node.get(cls, namespace=ns)
            mirror_f = getattr(getattr(h, 'flatten_func', None), '__self__', None) if h is not None and h.namespace == ns else None
            if mirror_f is not final_f:
                viol('mirror-mismatch', 'T7:%s' % cls.__name__, 'after outcomes %r the Python registry shows rid %r, a serial execution gives %r' % (
                    res, getattr(mirror_f, 'rid', None), getattr(final_f, 'rid', None)))
            if V is not None:
                eng = engine_registry_model()
                for nil in (False, True):
                    e = eng.get((nil, ns, cls))
                    eng_f = getattr(e[0], '__self__', None) if e is not None else None
                    if eng_f is not final_f:
                        viol('engine-mismatch', 'T7:%s' % cls.__name__, 'after outcomes %r the engine registry (none_is_leaf=%s) holds rid %r, a serial execution gives %r' % (
                            res, nil, getattr(eng_f, 'rid', None), getattr(final_f, 'rid', None)))
        for o in obs:
            if o[0] == 'exc' and not isinstance(o[1], EngineWouldBlock):
                viol('not-sequential', 'T7:observer', 'observer flatten raised %s' % describe_outcome(o))
        for o in lookups:
            if o[0] == 'exc' and not isinstance(o[1], EngineWouldBlock):
                # allowed: ValueError "Cannot flatten leaf-type" from tree_flatten_one_level while the type is unregistered
                # (only for classes that are leaves then), nothing else
                if not (isinstance(o[1], ValueError) and 'leaf' in str(o[1]).lower()):
                    viol('not-sequential', 'T7:registry-lookup', 'a registry lookup overlapping unregister / register of the same key raised %s' % describe_outcome(o))
        keys.add('T7|%s' % (pair,))

    def cleanup():
        try:
            optree.unregister_pytree_node(cls, namespace=ns)
        except ValueError:
            pass
    return {'cleanup': cleanup}


def classify_abnormal(out):
    prog = out.get('progress') or {}
    job = out.get('job') or {}
    kind = out['abnormal']
    site = '%s' % job.get('tpl', '?')
    if kind == 'hang':
        return {'cls': 'hang', 'site': site, 'msg': 'run did not finish (watchdog); stacks:\n' + (out.get('stderr') or '')[-3500:]}
    return {'cls': kind, 'site': site, 'msg': (out.get('stderr') or '')[-3500:]}
