"""C12 — registry changes are namespace-isolated, atomic and reversible.

Engine ``registry``: a single task applies a tape-generated history of register / register_class /
dataclass-register / unregister operations, with argument faults, warnings-as-errors, raising
warning hooks and raising metaclass hooks, to the REAL registry (engine + Python mirror) and to a
40-line model.  After every step — successful or failing — behaviour, mirror and engine snapshot
must equal the model for every type x namespace x none_is_leaf.
"""
from __future__ import annotations

import collections
import dataclasses as std_dataclasses
import gc
import hashlib
import sys
import warnings
from collections import OrderedDict, defaultdict, deque

import optree
import optree.dataclasses
from optree import _C

from optsim import universe as U
from optsim.scenario import GLOBAL
from optsim.tape import Tape, derive_seed

PROPERTY = 'C12'
LEVEL = 'exploration'
RULE = ('seeded histories (1..25 steps; thorough also sweeps all 2 954 histories of length <= 3 over a 14-symbol alphabet) of '
        'register / register_class / dataclass / unregister over {plain class, subclass, namedtuple subclass, fresh tuple '
        'subclass with instrumented metaclass, struct sequence, built-ins} x namespaces {global sentinel, a, b} x faults '
        '{non-class, bad entry type, empty / non-str namespace, warnings-as-errors, raising showwarning, raising metaclass '
        'hooks, duplicate, absent}; after every step: behaviour = mirror = engine snapshot = model for every type x '
        'namespace in {"", a, b, unknown} x none_is_leaf. distinct = distinct (model-state digest, operation, fault, outcome) '
        'transitions; non-trivial = the operation was attempted on a non-empty registry or failed')
ASSUMPTIONS = [
    '"raises for any reason" = any reason arising from the call\'s own execution incl. user hooks it invokes; '
    'asynchronous exceptions are not injected',
    'exception types are checked only where the docstrings fix them',
    'engine snapshot via the guarded read-only hook _C._verif.registry_snapshot',
]
REAL_VS_STUB = {
    'real': ['optree engine registry (both None variants)', 'optree.registry Python mirror and wrappers', 'optree.dataclasses',
             'CPython warnings machinery'],
    'stub_or_simulator_owned': ['flatten/unflatten callables', 'warnings filters + showwarning hook', 'metaclass hooks',
                                'operation / fault history (choice tape)'],
}
EXPECTED_PROBES = ('adjacent-lookup', 'run-under-insertion-order', 'dataclass-retry-after-failure', 'op:register', 'op:unregister', 'op:register_class', 'op:dataclass', 'fault:arg', 'fault:warn-error',
                   'fault:showwarning-raise', 'fault:hook-raise', 'outcome:ok', 'outcome:raised', 'atomicity-checked',
                   'shadowing-observed')

V = _C._verif if hasattr(_C, '_verif') else None
NAMESPACES_OBS = ('', 'a', 'b', 'unknown')
BUILTINS = (list, dict, tuple, type(None), deque, OrderedDict, defaultdict)
# classes that are KEYS of the Python-side built-in table without being node types themselves: the stand-in under which the
# handlers for all struct sequences are filed.  (collections.namedtuple, the other stand-in, is a function and is refused as
# "not a class".)  No instance has exactly this type; what a registration of it does shows in the observations of time.struct_time.
MARKERS = (optree.typing.structseq,)
# ordinary classes as far as the registry is concerned (not in the built-in set), but the commonest leaves there are: a
# classification shortcut for them would bypass a registration
SCALARS = (int, str, float)
KIND = optree.PyTreeKind


class Injected(Exception):
    pass


class NSStr(str):
    pass


class NotPristine(AssertionError):
    pass


def tier_config(tier):
    if tier == 'thorough':
        return {'budget_s': 600, 'flavours': ['hooks'], 'run_timeout': 60, 'determinism_sample': 24}
    return {'budget_s': 50, 'flavours': ['hooks'], 'run_timeout': 60, 'determinism_sample': 8}


ALPHABET = 14


def jobs(tier, seed, flavours):
    if tier == 'thorough':
        # exhaustive sweep of short histories over a fixed alphabet of (operation, type, namespace, fault) symbols
        for a in range(ALPHABET):
            yield {'i': -1, 'seed': seed, 'sweep': [a]}
            for b in range(ALPHABET):
                yield {'i': -1, 'seed': seed, 'sweep': [a, b]}
        for a in range(ALPHABET):
            for b in range(ALPHABET):
                for c in range(ALPHABET):
                    yield {'i': -1, 'seed': seed, 'sweep': [a, b, c]}
    i = 0
    while True:
        yield {'i': i, 'seed': seed}
        i += 1


def warmup():
    class IO:
        def progress(self, o):
            pass
    found = []
    for i in range(6):
        try:
            out = run_job({'i': i, 'seed': 4242, '_warm': True}, IO())
            found.extend(out.get('violations') or [])
        except NotPristine as e:
            # a fault-free warm-up history (register ... unregister everything) left the registry changed
            found.append({'cls': 'not-reversible', 'site': 'warmup-history', 'msg': 'a fault-free history of register / unregister calls '
                          'did not restore the registry: %s' % (str(e)[:1500],)})
            break
    return found


class CAsub(U.CA):
    pass


def universe_for_run():
    """Fresh classes per run for everything whose classification the engine caches."""
    fresh_tm = U.MetaHook('FreshTM', (tuple,), {})
    fresh_pm = U.MetaHook('FreshPM', (object,), {'__init__': U.PM.__init__})
    fresh_nt = type('FreshNT', (collections.namedtuple('FreshNTBase', ['p', 'q']),), {'__slots__': ()})
    fresh_hm = U.MetaHashHook('FreshHM', (object,), {'__init__': U.PM.__init__})
    fresh_falsy = U.FalsyMeta('FreshFalsy', (object,), {'__init__': U.PM.__init__})  # a class object that is falsy
    return [U.CA, CAsub, U.NTM, fresh_nt, fresh_tm, fresh_pm, U.STRUCTSEQ_TYPES[0], U.CE, list, dict, type(None), deque, MARKERS[0]] + list(SCALARS) + [fresh_hm, fresh_falsy]


def _called_from_optree():
    f = sys._getframe(2)
    for _ in range(6):
        if f is None:
            return False
        fn = f.f_code.co_filename
        if '/optree/' in fn and '/optsim/' not in fn and '/checks/' not in fn:
            return True
        f = f.f_back
    return False


def instance_of(cls):
    if cls in MARKERS:
        return None
    if cls in SCALARS:
        return cls(7)
    if cls in BUILTINS:
        if cls is type(None):
            return None
        if cls is dict:
            return {'k': U.Leaf(1)}
        if cls is defaultdict:
            return defaultdict(int, k=U.Leaf(1))
        if cls is OrderedDict:
            return OrderedDict(k=U.Leaf(1))
        return cls([U.Leaf(1)])
    if cls is U.STRUCTSEQ_TYPES[0]:
        return U.make_structseq([U.Leaf(i) for i in range(9)])
    if issubclass(cls, tuple):
        if hasattr(cls, '_fields'):
            return cls(*[U.Leaf(i) for i in range(len(cls._fields))])
        return cls((U.Leaf(1), U.Leaf(2)))
    return cls([U.Leaf(1), U.Leaf(2)], 0)


def is_nt_like(cls):
    return isinstance(cls, type) and issubclass(cls, tuple) and (hasattr(cls, '_fields') or cls is U.STRUCTSEQ_TYPES[0])


class Model:
    def __init__(self):
        self.reg = {}  # (ns or None, cls) -> Funcs

    def lookup(self, cls, ns):
        if ns != '' and (ns, cls) in self.reg:
            return self.reg[(ns, cls)]
        return self.reg.get((None, cls))

    def digest(self, types):
        idx = {t: i for i, t in enumerate(types)}
        return tuple(sorted((ns or '', idx.get(c, -1)) for (ns, c) in self.reg))


def builtin_kind(cls, nil):
    return {list: KIND.LIST, dict: KIND.DICT, tuple: KIND.TUPLE, deque: KIND.DEQUE, OrderedDict: KIND.ORDEREDDICT,
            defaultdict: KIND.DEFAULTDICT, type(None): (KIND.LEAF if nil else KIND.NONE)}[cls]


def expected_kind(model, cls, ns, nil):
    f = model.lookup(cls, ns)
    if f is not None:
        return KIND.CUSTOM, f
    if cls in BUILTINS:
        return builtin_kind(cls, nil), None
    if cls is U.STRUCTSEQ_TYPES[0]:
        return KIND.STRUCTSEQUENCE, None
    if issubclass(cls, tuple) and hasattr(cls, '_fields'):
        return KIND.NAMEDTUPLE, None
    return KIND.LEAF, None


RETAINED = {}  # (class, namespace, none_is_leaf) -> (treespec of the instance, the registration's functions), per run


def observe(model, types, instances, all_funcs, viol, site, probes):
    """Compare behaviour, mirror and engine snapshot with the model. Returns a comparable state vector."""
    U.HOOK = None
    vec = []
    for cls in types:
        if cls in MARKERS:
            continue
        inst = instances[cls]
        for ns in NAMESPACES_OBS:
            for nil in (False, True):
                want_kind, want_f = expected_kind(model, cls, ns, nil)
                before = [f.flatten_calls for f in all_funcs]
                try:
                    leaves, spec = optree.tree_flatten(inst, namespace=ns, none_is_leaf=nil)
                    got_kind = spec.kind
                except Exception as e:  # noqa: BLE001
                    viol('observe-raised', site, 'tree_flatten(%s instance, namespace=%r) raised %s: %s' % (cls.__name__, ns, type(e).__name__, e))
                    continue
                served = [f for f, b in zip(all_funcs, before) if f.flatten_calls != b]
                if isinstance(want_f, DataclassFuncs):
                    served = [want_f] if got_kind == KIND.CUSTOM and not served else served
                elif isinstance(want_f, ClassFuncs) and want_f in served and all(isinstance(x, ClassFuncs) for x in served):
                    served = [want_f]  # several class-registrations of one class share the class's own tree_flatten
                if got_kind != want_kind:
                    viol('behaviour-mismatch', site, 'flatten(%s, namespace=%r, none_is_leaf=%s) gives kind %s, model says %s' % (cls.__name__, ns, nil, got_kind, want_kind))
                elif want_f is not None and served != [want_f]:
                    viol('behaviour-mismatch', site, 'flatten(%s, namespace=%r) was served by registration %r, model says %r' % (
                        cls.__name__, ns, [f.rid for f in served], want_f.rid))
                elif want_f is None and served:
                    viol('behaviour-mismatch', site, 'flatten(%s, namespace=%r) called a custom flatten function although the model has no registration' % (cls.__name__, ns))
                if want_f is not None:
                    if model.reg.get((ns, cls)) is want_f and (None, cls) in model.reg and ns != '':
                        probes['shadowing-observed'] += 1
                    # the Python twin must agree (one-level flatten through the mirror)
                    before = [f.flatten_calls for f in all_funcs]
                    try:
                        optree.tree_flatten_one_level(inst, namespace=ns, none_is_leaf=nil)
                        served1 = [f for f, b in zip(all_funcs, before) if f.flatten_calls != b]
                        if isinstance(want_f, DataclassFuncs) and not served1:
                            served1 = [want_f]
                        elif isinstance(want_f, ClassFuncs) and want_f in served1 and all(isinstance(x, ClassFuncs) for x in served1):
                            served1 = [want_f]
                        if served1 != [want_f]:
                            viol('mirror-mismatch', site, 'tree_flatten_one_level(%s, namespace=%r) served by %r, model says %r' % (cls.__name__, ns, [f.rid for f in served1], want_f.rid))
                    except Exception as e:  # noqa: BLE001
                        viol('mirror-mismatch', site, 'tree_flatten_one_level(%s, namespace=%r) raised %s: %s' % (cls.__name__, ns, type(e).__name__, e))
                # a treespec KEPT from an earlier observation whose custom node was served by a registration that is not the
                # current one any more (unregistered, replaced, shadowed): pushing the instance through it (flatten_up_to: every
                # tree after the first of tree_map & co.) is flattening too - the stale registration's function must not run
                kept = RETAINED.get((cls, ns, nil))
                if kept is not None and kept[1] is not want_f and type(kept[1]) is U.Funcs:
                    before = [f.flatten_calls for f in all_funcs]
                    try:
                        kept[0].flatten_up_to(inst)
                        up_oc = 'accepted'
                    except (ValueError, TypeError, RuntimeError) as e:
                        up_oc = 'refused'
                    probes['retained-spec:' + up_oc] += 1
                    if kept[1].flatten_calls != before[all_funcs.index(kept[1])]:
                        viol('behaviour-mismatch', site, 'flatten_up_to(%s instance) with a treespec kept from before the registry change (namespace=%r, none_is_leaf=%s) ran the flatten '
                             'function of registration %r; the model says the current one is %r' % (cls.__name__, ns, nil, kept[1].rid, getattr(want_f, 'rid', None)))
                if got_kind == KIND.CUSTOM and want_f is not None and served == [want_f]:
                    RETAINED[(cls, ns, nil)] = (spec, want_f)
                vec.append((cls.__name__, ns, nil, int(got_kind), tuple(f.rid for f in served)))
            # ---- Python-visible registry
            try:
                h = optree.register_pytree_node.get(cls, namespace=ns)
            except Exception as e:  # noqa: BLE001
                viol('observe-raised', site, 'register_pytree_node.get(%s, namespace=%r) raised %s' % (cls.__name__, ns, type(e).__name__))
                continue
            want_kind, want_f = expected_kind(model, cls, ns, False)
            if h is not None and not hasattr(h, 'flatten_func'):
                viol('mirror-mismatch', site, 'register_pytree_node.get(%s, namespace=%r) returned a %s, not a registry entry or None' % (cls.__name__, ns, type(h).__name__))
                continue
            if want_f is not None:
                if h is None or h.flatten_func != want_f.flatten or h.unflatten_func != want_f.unflatten or h.type is not cls:
                    viol('mirror-mismatch', site, 'register_pytree_node.get(%s, namespace=%r) = %s, model says registration %r' % (cls.__name__, ns, short(h), want_f.rid))
            elif want_kind == KIND.LEAF:
                if h is not None:
                    viol('mirror-mismatch', site, 'register_pytree_node.get(%s, namespace=%r) = %s, model says leaf (None)' % (cls.__name__, ns, short(h)))
            else:
                if h is None or h.kind != (want_kind if cls is not type(None) else KIND.NONE):
                    viol('mirror-mismatch', site, 'register_pytree_node.get(%s, namespace=%r) = %s, model says built-in kind %s' % (cls.__name__, ns, short(h), want_kind))
            vec.append((cls.__name__, ns, short(h)))
    for ns in NAMESPACES_OBS:
        table = optree.register_pytree_node.get(namespace=ns)
        for cls in types:
            want_kind, want_f = expected_kind(model, cls, ns, False)
            h = table.get(cls)
            if want_f is not None:
                if h is None or h.flatten_func != want_f.flatten:
                    viol('mirror-mismatch', site, 'register_pytree_node.get(namespace=%r)[%s] = %s, but flattening in %r uses registration %r' % (ns, cls.__name__, short(h), ns, want_f.rid))
            elif cls not in BUILTINS and cls not in MARKERS and h is not None:
                viol('mirror-mismatch', site, 'register_pytree_node.get(namespace=%r) lists %s = %s, model has no registration visible from %r' % (ns, cls.__name__, short(h), ns))
    # ---- engine snapshot
    if V is not None:
        for nil in (False, True):
            snap = {}
            for ns, cls, kind, ff, uf, pe in V.registry_snapshot(nil):
                if kind == 0 and cls in types:
                    snap[(ns, cls)] = (ff, uf)
            want = {k: (f.flatten, f.unflatten) for k, f in model.reg.items()}
            if snap != want:
                viol('engine-mismatch', site, 'engine registry (none_is_leaf=%s) holds %r, model %r' % (
                    nil, sorted((k[0] or '<global>', k[1].__name__) for k in snap), sorted((k[0] or '<global>', k[1].__name__) for k in want)))
        bt = set(V.builtin_types())
        if bt != set(BUILTINS):
            viol('engine-mismatch', site, 'built-in type set changed: %r' % (bt ^ set(BUILTINS),))
        vec.append(tuple(sorted((k[0] or '', k[1].__name__) for k in snap)))
    return vec


def short(h):
    if h is None:
        return 'None'
    if not hasattr(h, 'flatten_func'):
        return 'not a registry entry: %s' % type(h).__name__
    ff = getattr(h.flatten_func, '__self__', None)
    rid = getattr(ff, 'rid', None)
    return 'Entry(type=%s, kind=%s, ns=%r, rid=%r)' % (getattr(h.type, '__name__', h.type), int(h.kind), h.namespace, rid)


SYMBOLS = None


def run_job(job, io):
    tape = Tape(replay=job['tape']) if 'tape' in job else Tape(seed=derive_seed(job.get('seed', 0), PROPERTY, job.get('i', 0), tuple(job.get('sweep') or ())))
    # a configuration: one run in four happens inside an insertion-ordered block (for namespace 'a' or for all namespaces); what
    # the Python-visible registry says about registrations must not depend on it
    mode = tape.draw(4, 'dict-order-mode') if job.get('sweep') is None and not job.get('_warm') else 0
    if mode == 3:
        with optree.dict_insertion_ordered(True, namespace=('a', GLOBAL)[tape.draw(2, 'dict-order-ns')]):
            out = _run_body(job, io, tape)
        out.setdefault('probes', {})['run-under-insertion-order'] = 1
        return out
    return _run_body(job, io, tape)


def _run_body(job, io, tape):
    RETAINED.clear()
    violations, keys, probes = [], set(), collections.Counter()
    oplog = []
    types = universe_for_run()
    instances = {c: instance_of(c) for c in types}
    model = Model()
    all_funcs = []
    old_filters = warnings.filters[:]
    old_show = warnings.showwarning
    warnings.resetwarnings()
    warnings.simplefilter('always')
    shown = [0]

    def quiet_show(*a, **k):
        shown[0] += 1

    warnings.showwarning = quiet_show

    def viol(cls, site, msg):
        if len(violations) < 6:
            violations.append({'cls': cls, 'site': site, 'msg': '%s | history=%s' % (msg, oplog[-6:])})

    observe(model, types, instances, all_funcs, viol, 'initial', probes)
    if violations:
        # an initial mismatch would be a harness defect (registry not pristine) — surface it loudly
        raise NotPristine('registry not pristine at run start: %r' % violations)
    rid = [1]
    sweep = job.get('sweep')
    n_steps = len(sweep) if sweep is not None else 1 + tape.draw(25, 'n-steps')
    steps = 0
    dataclass_types = []
    for si in range(n_steps):
        # ---- draw one step
        if sweep is not None:
            sym = sweep[si]
            opk = ('register', 'register', 'register', 'register', 'unregister', 'unregister', 'register', 'register', 'unregister',
                   'register', 'register_class', 'dataclass', 'register', 'unregister')[sym]
            cls = (types[0], types[0], types[2], types[6], types[0], types[2], types[8], types[4], types[8], types[1], types[7],
                   None, types[3], types[6])[sym]
            ns = (GLOBAL, 'a', 'a', 'b', 'a', 'a', 'a', 'a', GLOBAL, 'b', 'a', 'a', GLOBAL, 'b')[sym]
            fault = (None, None, 'warn-error', 'showwarning-raise', None, None, None, 'hook-raise', None, None, None, None,
                     'warn-error', None)[sym]
        else:
            opk = tape.weighted([(6, 'register'), (5, 'unregister'), (2, 'register_class'), (1, 'dataclass')], 'op')
            cls = types[tape.draw(len(types), 'cls')]
            ns = (GLOBAL, 'a', 'b', 'a')[tape.draw(4, 'ns')]
            fault = tape.weighted([(10, None), (2, 'arg'), (3, 'warn-error'), (2, 'showwarning-raise'), (2, 'hook-raise')], 'fault')
            if job.get('_warm'):
                fault = None
        steps += 1
        probes['op:' + opk] += 1
        if fault:
            probes['fault:' + fault] += 1
        nsname = '<global>' if ns is GLOBAL else ns
        key_ns = None if ns is GLOBAL else ns
        site = '%s:%s:%s' % (opk, getattr(cls, '__name__', 'new'), fault or '-')
        io.progress({'site': site, 'tape': tape.values})
        before_vec = observe(model, types, instances, all_funcs, lambda *a: None, site, collections.Counter())
        rc_f0 = None
        expect_exc = None  # None = must succeed; a tuple of types = must raise one of them; 'any' = must raise something
        kwargs = {}
        args_cls = cls
        ns_arg = ns
        inj = Injected(si)
        if fault == 'arg':
            which = tape.draw(5, 'argfault') if sweep is None else 0
            if which == 0:
                args_cls = 42
                expect_exc = (TypeError,)
            elif which == 1 and opk in ('register', 'register_class'):
                kwargs['path_entry_type'] = int
                expect_exc = (TypeError,)
            elif which == 2:
                ns_arg = ''
                expect_exc = (ValueError,)
            elif which == 3:
                ns_arg = 17
                expect_exc = (TypeError,)
            else:
                ns_arg = None if opk != 'register_class' else 5
                expect_exc = (TypeError, ValueError)
        f = None
        retry_cls = None
        if isinstance(ns_arg, str) and ns_arg and sweep is None and tape.draw(6, 'ns-strsub') == 5:
            ns_arg = NSStr(ns_arg)  # equal to the plain string, not identical, not exactly `str`
            probes['namespace-str-subclass'] += 1
        if opk == 'register_class' and not (isinstance(cls, type) and hasattr(cls, 'tree_flatten')):
            cls = U.CE
            if args_cls != 42:
                args_cls = cls
        if opk == 'register':
            f = U.Funcs(cls if isinstance(cls, type) else U.CA, rid[0], tape.draw(4, 'style') if sweep is None else 0)
            rc_f0 = sys.getrefcount(f)
        elif opk == 'register_class':
            f = ClassFuncs(cls, rid[0])
        cls_in = cls
        rc_cls0 = sys.getrefcount(cls) if isinstance(cls, type) else None
        try:
            if fault == 'warn-error':
                warnings.simplefilter('error')
            elif fault == 'showwarning-raise':
                def raising_show(*a, **k):
                    raise inj
                warnings.showwarning = raising_show
            elif fault == 'hook-raise':
                def hook(label):
                    if label in ('cls.__repr__', 'meta.__getattr__'):
                        raise inj if label == 'cls.__repr__' else AttributeError('injected')
                    if label == 'cls.__hash__' and _called_from_optree():
                        probes['class-hash-raised-inside-optree'] += 1
                        raise inj  # for the duration of this call the class is not hashable
                U.HOOK = hook
            # ---- the very last thing the engine is asked before the call is about THIS (class, namespace) -- a lookup memo keyed
            # on "same question as last time" is then still warm when the call changes the answer
            if isinstance(cls, type) and cls in instances and instances[cls] is not None and isinstance(ns_arg, str) or ns_arg is GLOBAL:
                adj_ns = '' if ns_arg is GLOBAL else str(ns_arg)
                if adj_ns != '' or ns_arg is GLOBAL:
                    try:
                        for nil_ in (False, True):
                            optree.tree_is_leaf(instances.get(cls), namespace=adj_ns, none_is_leaf=nil_)
                    except Exception:  # noqa: BLE001
                        pass
            if opk in ('register', 'register_class'):
                will_warn = isinstance(cls, type) and is_nt_like(cls)
                if expect_exc is None:
                    if cls in BUILTINS or (key_ns, cls) in model.reg:
                        expect_exc = (ValueError,) if fault != 'hook-raise' or not isinstance(cls, U.MetaHook) else (ValueError, Injected)
                    elif will_warn and fault in ('warn-error', 'showwarning-raise'):
                        expect_exc = 'any'
                    elif cls in MARKERS:
                        # refusing it (it is a key of the built-in table) and accepting it as an ordinary class are both within
                        # the statement; what must hold either way is checked by the observations that follow
                        expect_exc = 'either'
                        probes['register-builtin-table-key'] += 1
                if opk == 'register':
                    optree.register_pytree_node(args_cls, f.flatten, f.unflatten, namespace=ns_arg, **kwargs)
                else:
                    form = tape.draw(5, 'deco') if sweep is None else 0
                    pet = {}
                    if tape.draw(3, 'class-pet') == 2 and sweep is None:
                        pet = {'path_entry_type': optree.GetAttrEntry}
                    if 'path_entry_type' in kwargs:
                        pet = {'path_entry_type': kwargs['path_entry_type']}
                    if form == 0:
                        optree.register_pytree_node_class(args_cls, namespace=ns_arg, **pet)
                    elif form == 1:
                        optree.register_pytree_node_class(namespace=ns_arg, **pet)(args_cls)
                    elif form in (2, 4) and ((isinstance(ns_arg, str) and ns_arg) or (form == 4 and ns_arg is GLOBAL)):
                        optree.register_pytree_node_class(ns_arg, **pet)(args_cls)  # positional form: a string or the global sentinel
                    else:
                        optree.register_pytree_node_class(None, namespace=ns_arg, **pet)(args_cls)
                    probes['class-form:%d' % form] += 1
                rid[0] += 1
                model.reg[(key_ns, cls)] = f
                all_funcs.append(f)
            elif opk == 'dataclass':
                if expect_exc is None and fault == 'arg':
                    expect_exc = (TypeError, ValueError)
                if ns_arg is GLOBAL and tape.draw(2, 'dc-global') == 0 and sweep is None:
                    pass  # a dataclass registered in the global namespace (the sentinel passed as such)
                elif ns_arg is GLOBAL:
                    ns_arg = 'a'
                    key_ns = 'a'
                if args_cls == 42:
                    optree.dataclasses.dataclass(42, namespace=ns_arg)
                if expect_exc is not None and sweep is None:
                    # a failing call on an EXISTING plain class must leave it usable (the valid retry after this step must succeed)
                    class Plain:
                        x: object
                        y: object = None
                    retry_cls = Plain
                    optree.dataclasses.dataclass(Plain, namespace=ns_arg)
                how = tape.draw(4, 'dc-how') if sweep is None else 0
                dckw = ({}, {}, {'frozen': True}, {'slots': True}, {'kw_only': True}, {'eq': False}, {'order': True}, {'unsafe_hash': True})[tape.draw(8, 'dc-kw') if sweep is None else 0]
                probes['dataclass-form:%d' % how] += 1
                if how in (1, 3) and expect_exc is None and any(k in dckw for k in ('frozen', 'order', 'unsafe_hash')):
                    # optree.dataclasses.make_dataclass applies the dataclass decorator twice; with these options the second
                    # application refuses ("Cannot overwrite attribute ...").  A functional limitation no claimed property owns
                    # (DESIGN 6a); what C12 asserts is that the refused call changes nothing, which the judge below checks.
                    expect_exc = 'either'
                    probes['make_dataclass-option-refused-possible'] += 1
                if how == 0:
                    @optree.dataclasses.dataclass(namespace=ns_arg, **dckw)
                    class DC:
                        x: object
                        y: object = None
                    newcls = DC
                elif how == 2:
                    class DC:  # noqa: F811 - the direct-call form on an existing class (with slots=True the result is a NEW class)
                        x: object
                        y: object = None
                    newcls = optree.dataclasses.dataclass(DC, namespace=ns_arg, **dckw)
                elif how == 3 and (ns_arg is GLOBAL or isinstance(ns_arg, str)):
                    # the legacy spelling: `namespace` is the class namespace dict of dataclasses.make_dataclass, the registry
                    # namespace comes as `ns`; optree swaps them back
                    newcls = optree.dataclasses.make_dataclass('MDC', ['x', ('y', object, None)], ns=ns_arg, namespace={'extra_attr': 1}, **dckw)
                else:
                    newcls = optree.dataclasses.make_dataclass('MDC', ['x', ('y', object, None)], namespace=ns_arg, **dckw)
                f = DataclassFuncs(newcls, rid[0])
                rid[0] += 1
                types.append(newcls)
                instances[newcls] = newcls(x=U.Leaf(1), y=U.Leaf(2))
                model.reg[(key_ns, newcls)] = f
                all_funcs.append(f)
                dataclass_types.append(newcls)
                cls = newcls
            else:  # unregister
                if expect_exc is None:
                    if cls in BUILTINS or (key_ns, cls) not in model.reg:
                        expect_exc = (ValueError,) if fault != 'hook-raise' or not isinstance(cls, U.MetaHook) else (ValueError, Injected)
                optree.unregister_pytree_node(args_cls, namespace=ns_arg)
                model.reg.pop((key_ns, cls), None)
            raised = None
        except BaseException as e:  # noqa: BLE001
            raised = e
            e.__traceback__ = None
        finally:
            U.HOOK = None
            warnings.resetwarnings()
            warnings.simplefilter('always')
            warnings.showwarning = quiet_show
        # ---- judge
        if raised is None:
            outcome = 'ok'
            probes['outcome:ok'] += 1
            if expect_exc is not None and expect_exc not in ('any', 'either'):
                # the model said this must fail: undo the model update made above
                viol('should-have-failed', site, '%s(%s, namespace=%s) succeeded; expected %s' % (opk, getattr(cls, '__name__', cls), nsname, [t.__name__ for t in expect_exc]))
            elif expect_exc == 'any':
                # a warning that was turned into an error may legitimately not surface only if the registration is complete
                pass
        else:
            outcome = 'raised:' + type(raised).__name__
            probes['outcome:raised'] += 1
            # roll the model back: a raising call must leave the registry exactly as it was
            if opk in ('register', 'register_class', 'dataclass') and f is not None and model.reg.get((key_ns, cls)) is f:
                del model.reg[(key_ns, cls)]
                if f in all_funcs:
                    all_funcs.remove(f)
            if fault == 'hook-raise' and raised is inj:
                pass  # a user hook raised: the call may fail with that very exception; the registry must be untouched (checked below)
            elif expect_exc is None:
                viol('unexpected-failure', site, '%s(%s, namespace=%s) raised %s: %s' % (opk, getattr(cls, '__name__', cls), nsname, type(raised).__name__, raised))
            elif expect_exc == 'either' and isinstance(raised, (ValueError, TypeError)):
                pass
            elif expect_exc != 'any' and not isinstance(raised, expect_exc if expect_exc != 'either' else (ValueError, TypeError)):
                viol('wrong-exception', site, '%s(%s, namespace=%s) raised %s (%s); documented: %s' % (
                    opk, getattr(cls, '__name__', cls), nsname, type(raised).__name__, raised, [t.__name__ for t in expect_exc]))
            elif isinstance(raised, SystemError):
                viol('wrong-exception', site, '%s raised SystemError: %s' % (opk, raised))
        oplog.append('%s(%s,%s)%s->%s' % (opk, getattr(cls, '__name__', cls), nsname, '[%s]' % fault if fault else '', outcome))
        # ... and the very first thing it is asked after the call is the same question
        if isinstance(cls, type) and cls in instances and instances[cls] is not None and cls not in MARKERS and (key_ns is None or isinstance(key_ns, str)):
            adj_ns = '' if key_ns is None else key_ns
            probes['adjacent-lookup'] += 1
            for nil_ in (False, True):
                try:
                    got_leaf = optree.tree_is_leaf(instances[cls], namespace=adj_ns, none_is_leaf=nil_)
                except Exception as e:  # noqa: BLE001
                    viol('observe-raised', site, 'tree_is_leaf right after the call raised %s: %s' % (type(e).__name__, e))
                    break
                want_kind_, _f = expected_kind(model, cls, adj_ns, nil_)
                if got_leaf != (want_kind_ == KIND.LEAF):
                    viol('behaviour-mismatch', site, 'the first lookup after %s(%s, namespace=%s) says %s is %sa leaf in %r (none_is_leaf=%s); the model says kind %s' % (
                        opk, cls.__name__, nsname, cls.__name__, '' if got_leaf else 'NOT ', adj_ns, nil_, want_kind_))
                    break
        after_vec = observe(model, types, instances, all_funcs, viol, site, probes)
        if raised is not None:
            probes['atomicity-checked'] += 1
            if before_vec != after_vec[:len(before_vec)] and not violations:
                viol('not-atomic', site, 'observable registry state changed although the call raised %s' % type(raised).__name__)
            del raised
            gc.collect()
            if rc_cls0 is not None and cls is cls_in and opk != 'dataclass' and sys.getrefcount(cls) != rc_cls0:  # a dataclass step creates its own classes; the drawn class is not an argument
                viol('refcount', site, 'refcount of %s changed %d -> %d across a failing call' % (cls.__name__, rc_cls0, sys.getrefcount(cls)))
            if rc_f0 is not None and f is not None and sys.getrefcount(f) != rc_f0:
                viol('refcount', site, 'refcount of the callables\' owner changed %d -> %d across a failing register call' % (rc_f0, sys.getrefcount(f)))
            f = None
        if retry_cls is not None and not violations:
            probes['dataclass-retry-after-failure'] += 1
            try:
                retried = optree.dataclasses.dataclass(retry_cls, namespace='a')
            except Exception as e2:  # noqa: BLE001
                viol('not-atomic', 'dataclass:retry', 'dataclass(C, namespace=<invalid>) raised, and the retry with a valid namespace on the SAME class '
                     'now raises %s: %s' % (type(e2).__name__, e2))
            else:
                fr = DataclassFuncs(retried, rid[0])
                rid[0] += 1
                types.append(retried)
                instances[retried] = retried(x=U.Leaf(1), y=U.Leaf(2))
                model.reg[('a', retried)] = fr
                all_funcs.append(fr)
                dataclass_types.append(retried)
                oplog.append('dataclass-retry(Plain,a)->ok')
                observe(model, types, instances, all_funcs, viol, 'dataclass:retry', probes)
            retry_cls = None
        keys.add('%s|%s|%s|%s|%s' % (hash(model.digest(types)) & 0xffff, opk, getattr(cls, '__name__', cls) if cls in types[:18] else 'DC', fault or '-', outcome.split(':')[0]))
        if violations:
            break
    # ---- reversibility: unregister everything, state must equal the pristine one
    if not violations or job.get('_warm'):
        for (kns, cls), f in list(model.reg.items()):
            try:
                optree.unregister_pytree_node(cls, namespace=GLOBAL if kns is None else kns)
                del model.reg[(kns, cls)]
            except Exception as e:  # noqa: BLE001
                viol('not-reversible', 'final-unregister:%s' % cls.__name__, 'unregistering a live registration raised %s: %s' % (type(e).__name__, e))
        observe(model, types, instances, all_funcs, viol, 'final', probes)
    else:
        # leave nothing behind for determinism of following runs in this (forked) process — irrelevant, process exits
        pass
    warnings.filters[:] = old_filters
    warnings.showwarning = old_show
    dig = hashlib.sha256(repr((oplog, [v['cls'] + v['site'] for v in violations])).encode()).hexdigest()
    out = {'digest': dig, 'violations': violations, 'keys': sorted(keys), 'steps': steps, 'probes': dict(probes),
           'faults_cfg': {k[6:]: 1 for k in probes if k.startswith('fault:')},
           'faults_fired': {k[6:]: v for k, v in probes.items() if k.startswith('fault:')},
           'sample': {'history': oplog} if (job.get('i', 0) % 100 == 0 and sweep is None) else None, 'extra': {'steps': steps, 'sweep_histories': int(sweep is not None)}}
    if violations or job.get('_min') or job.get('_stream_tape'):
        out['tape'] = tape.values
        out['ops'] = oplog
    return out


class ClassFuncs:
    """Registration made through register_pytree_node_class: the callables are the class's own methods."""

    def __init__(self, cls, rid):
        self.cls = cls
        self.rid = rid
        self._calls = 0
        self.unflatten = cls.tree_unflatten
        # the wrapper registers methodcaller('tree_flatten'); identify by behaviour: count hook calls on the class
        self.flatten = _Eq(lambda h: getattr(h, '__class__', None).__name__ == 'methodcaller')
        self.base = None

    @property
    def flatten_calls(self):
        return _CE_CALLS[0]


class DataclassFuncs:
    def __init__(self, cls, rid):
        self.cls = cls
        self.rid = rid
        self.flatten = _Eq(lambda h: callable(h))
        self.unflatten = _Eq(lambda h: callable(h))

    @property
    def flatten_calls(self):
        return _DC_CALLS.get(self.cls, 0)


class _Eq:
    """Compares equal to anything satisfying the predicate (for callables created inside optree)."""

    def __init__(self, pred):
        self.pred = pred

    def __eq__(self, other):
        return self.pred(other)

    def __ne__(self, other):
        return not self.pred(other)

    def __hash__(self):
        return 0


_CE_CALLS = [0]
_DC_CALLS = {}
_orig_ce_flatten = U.CE.tree_flatten


def _counting_ce_flatten(self):
    _CE_CALLS[0] += 1
    return _orig_ce_flatten(self)


U.CE.tree_flatten = _counting_ce_flatten
