"""C15 — a failing user callback fails the operation cleanly.

Engine ``cbfault``: per run one (operation, scenario) pair drawn from the tape; the fault-free
execution records the ordered engine->Python call events e1..eK; then for EVERY k the operation is
re-executed with an exception injected at e_k and judged by: exception identity, nothing returned,
reference-count ledger, re-entrancy guard residue, held engine locks, and a fault-free re-execution
that must reproduce the baseline.  Malformed custom-flatten returns are enumerated per registration.
"""
from __future__ import annotations

import collections
import gc
import sys
from array import array

import optree
from optree import _C

from optsim import gen
from optsim import universe as U
from optsim.same import same
from optsim import tstate as TS
from optsim.scenario import OPS, OP_NAMES, Scn, clone, outcome, same_outcome, describe_outcome
from optsim.tape import Tape, derive_seed
import warnings

# one more engine -> user-code call site, owned by this check only (it swaps process-global warning state, which the
# multi-task checks must not do): the engine WARNS when asked for the treespec of a leaf, and the user's warning hook
# (warnings.showwarning, or a filter that turns the warning into an exception) runs inside the engine call
_WARN_LEAF = U.Leaf(424242)


def _show_hook(message, category, filename, lineno, file=None, line=None):
    U._h('showwarning')


def _from_collection_leaf(s):
    with warnings.catch_warnings():
        warnings.simplefilter('always')
        warnings.showwarning = _show_hook
        return optree.treespec_from_collection(_WARN_LEAF, **s.kw)


def _from_collection_leaf_error_filter(s):
    with warnings.catch_warnings():
        warnings.simplefilter('error')
        try:
            return optree.treespec_from_collection(_WARN_LEAF, **s.kw)
        except UserWarning:
            return 'UserWarning raised by the filter'


OPS = dict(OPS)
OPS['from_collection_leaf'] = _from_collection_leaf
OPS['from_collection_leaf_error_filter'] = _from_collection_leaf_error_filter
OP_NAMES = tuple(OPS)

PROPERTY = 'C15'
LEVEL = 'fault_enumeration'
RULE = ('each run draws one (operation, scenario) pair from the seed (scenario = registrations + generated tree with '
        'instrumented keys/metadata/custom nodes/predicates/iterables); every callback invocation index k=1..K of '
        'that pair is then injected exhaustively (single fault per execution). A case is non-trivial when K>=1; '
        'distinct = distinct (operation, callback site label, fault kind, ordinal-of-that-site bucket) tuples')
ASSUMPTIONS = [
    'exceptions are injected only into callables the property lists; __bool__ of predicate results and metaclass '
    'attribute hooks are not fault targets',
    'a TypeError injected into key __lt__ is *specified* to be absorbed (incomparable keys): only no-crash, ledger '
    'and residue oracles apply there',
    'refcount ledger = sys.getrefcount over all scenario objects + len(gc.get_objects()) after collect, gc frozen '
    'in the zygote so only run-created objects are counted',
    'GIL build only',
]
REAL_VS_STUB = {
    'real': ['optree C++ engine built from the working tree (hooks flavour; thorough adds ASan+UBSan flavour)',
             'optree Python layer', 'CPython 3.12 refcounting / GC / pickle'],
    'stub_or_simulator_owned': ['all user callbacks (instrumented universe)', 'fault timing (k-th callback)',
                                'GC timing (disabled, explicit collect in the ledger)'],
}
EXPECTED_PROBES = ('is_leaf', 'flatten_func', 'unflatten_func', 'map_fn', 'key.__hash__', 'key.__lt__', 'key.__eq__',
                   'meta.__ne__', 'meta.__repr__', 'f_node', 'f_leaf', 'leaves.__next__',
                   'children.__next__', 'nt.__new__', 'dc.__post_init__', 'entry.__post_init__', 'tstate-ledger:on', 'success-ledger', 'leaf-count-checked') + tuple('op:' + n for n in OP_NAMES)
# (metadata __eq__ / __hash__ are not in the list: the engine compares custom metadata with `!=` only
#  (richcomparison.cpp) and deliberately does not hash it (hashing.cpp:42), so those two can never fire)

V = _C._verif if hasattr(_C, '_verif') else None
K_CAP = 160


class Injected(Exception):
    pass


class InjectedBase(BaseException):
    pass


# user exceptions of classes the engine's own error paths also use: a catch clause or an exception translator that is
# too broad would replace / absorb exactly these
class InjectedValueError(ValueError):
    pass


class InjectedRuntimeError(RuntimeError):
    pass


class InjectedKeyError(KeyError):
    pass


class InjectedIndexError(IndexError):
    pass


class InjectedRecursionError(RecursionError):
    pass


class InjectedTypeError(TypeError):
    pass


EXC_KINDS = (Injected, InjectedBase, None, InjectedValueError, InjectedRuntimeError, InjectedKeyError, InjectedIndexError,
             InjectedRecursionError, InjectedTypeError, Injected)


def tier_config(tier):
    if tier == 'thorough':
        return {'budget_s': 600, 'flavours': ['hooks', 'asan'], 'run_timeout': 120, 'determinism_sample': 24}
    return {'budget_s': 55, 'flavours': ['hooks'], 'run_timeout': 60, 'determinism_sample': 8}


def jobs(tier, seed, flavours):
    i = 0
    while True:
        yield {'i': i, 'seed': seed}
        if 'asan' in flavours and i % 4 == 0:
            yield {'i': i, 'seed': seed, 'flavour': 'asan'}
        i += 1


def warmup():
    t = Tape(seed=1)
    for _ in range(6):
        s = Scn(t)
        for name in OP_NAMES:
            try:
                OPS[name](s)
            except Exception:  # noqa: BLE001
                pass
        s.close()
    optree.tree_flatten(U.make_structseq(range(9)))
    if V is not None:
        V.snapshots()
        V.held_locks()


def _spec_of_node(node, f, kw):
    """The treespec of ``node`` made while its flatten function is well-formed (the malformed mode is switched off for the
    duration), so that flatten_up_to re-invokes the now malformed function on an operand."""
    m, f.malform = f.malform, None
    try:
        return optree.tree_structure(node, **kw)
    finally:
        f.malform = m


def refcounts(tracked, into):
    # filled in place: allocating a container per measurement would itself change the live-object count
    rc = sys.getrefcount
    for i, o in enumerate(tracked):
        into[i] = rc(o)
    return into


def gc_count():
    gc.collect()
    return len(gc.get_objects())


def bucket(n):
    return n if n < 3 else (3 if n < 8 else 4)


def run_job(job, io):
    tape = Tape(replay=job['tape']) if 'tape' in job else Tape(seed=derive_seed(job.get('seed', 0), PROPERTY, job['i']))
    violations = []
    keys = set()
    probes = {}
    faults_fired = collections.Counter({'raise': 0, 'raise-base': 0, 'raise-typeerror-lt': 0, 'malformed': 0})
    steps = 0

    scn = Scn(tape)
    opname = tape.choice(OP_NAMES, 'op')
    base_kind = tape.draw(len(EXC_KINDS), 'exc-kind')
    fn = OPS[opname]
    ops_desc = {'op': opname, 'ns': scn.ns, 'none_is_leaf': scn.none_is_leaf, 'tree': gen.describe(scn.tree),
                'registered': [(c.__name__, f.style) for c, _, f in scn.reg.live], 'stop_nodes': len(scn.stop_ids)}

    def viol(cls, site, msg):
        if len(violations) < 6:
            violations.append({'cls': cls, 'site': site, 'msg': '%s | op=%s tree=%s' % (msg, opname, ops_desc['tree'][:300])})

    # ---- fault-free baseline, twice (second pass gives the steady-state ledger)
    events = []
    U.HOOK = events.append
    base = outcome(fn, scn)
    U.HOOK = None
    n_events = len(events)
    labels = list(events)
    if base[0] == 'exc' and isinstance(base[1], SystemError):
        viol('internal-error', '%s@baseline' % opname, 'fault-free call raised %s' % describe_outcome(base))
    events2 = []
    ts_b = TS.counters()
    U.HOOK = events2.append
    base2 = outcome(fn, scn)
    U.HOOK = None
    if TS.counters() != ts_b:
        viol('thread-state', '%s@baseline' % opname, 'recursion counters of the calling thread changed across a fault-free call: %r -> %r' % (ts_b, TS.counters()))
    probes['tstate-ledger:' + ('on' if ts_b is not None else 'off')] = 1
    d = same_outcome(base, base2)
    if d or events2 != labels:
        viol('unstable', '%s@baseline' % opname, 'two fault-free executions differ: %s; events %d vs %d' % (d, n_events, len(events2)))
    for lab in labels:
        probes[lab] = probes.get(lab, 0) + 1
    probes['op:' + opname] = 1
    tree_before = clone(scn.tree)
    spec_obs = (hash(scn.spec), repr(scn.spec), hash(scn.prefix_spec), repr(scn.prefix_spec))
    tracked = scn.tracked()
    from collections import OrderedDict
    from optsim.scenario import walk
    od_keys = {id(k) for root in (scn.tree, scn.tree2, scn.prefix, scn.other) for x in walk(root)
               if isinstance(x, OrderedDict) for k in dict.keys(x)}  # identity set: order irrelevant
    del base2, events2
    K = n_events
    ks = list(range(1, K + 1))
    if K > K_CAP:  # keep runs bounded: all of the first 60, then a tape-chosen sample
        rest = tape.shuffle(ks[60:], 'k-sample')[:K_CAP - 60]
        ks = ks[:60] + sorted(rest)
    ordinal = {}
    site_ord = []
    for lab in labels:
        ordinal[lab] = ordinal.get(lab, 0) + 1
        site_ord.append(ordinal[lab])

    buf_b, buf_a, buf_c = (array('q', [0] * len(tracked)) for _ in range(3))
    # ---- the success path must not accumulate references either (three more fault-free executions, results dropped)
    x = outcome(fn, scn)
    del x
    refs_b = refcounts(tracked, buf_b)
    n_b = gc_count()
    x = outcome(fn, scn)
    del x
    refs_a = refcounts(tracked, buf_a)
    n_a = gc_count()
    x = outcome(fn, scn)
    del x
    refs_c = refcounts(tracked, buf_c)
    n_c = gc_count()
    grew = [(type(o).__name__, b, a, c) for o, b, a, c in zip(tracked, refs_b, refs_a, refs_c) if a > b and c > a]
    if grew or (n_a > n_b and n_c > n_a):
        viol('leak', '%s@success' % opname, 'reference counts grow with every SUCCESSFUL call: objects (type, before, after 1st, after 2nd) %r; '
             'live gc objects %d -> %d -> %d' % (grew[:6], n_b, n_a, n_c))
    probes['success-ledger'] = 1
    for k in ks:
        label = labels[k - 1]
        exc_cls = EXC_KINDS[base_kind]
        if (label == 'key.__lt__' and (exc_cls is None or exc_cls is InjectedTypeError)) or \
                (label in ('key.__eq__', 'ukey.__eq__') and exc_cls is InjectedTypeError):
            # a TypeError from a key comparison (__lt__, or the __eq__ that tuple comparison calls during the fallback sort)
            # is the documented "incomparable keys" signal
            inj = TypeError('injected incomparable') if exc_cls is None else InjectedTypeError(k)
            kind = 'raise-typeerror-lt'
        elif exc_cls is InjectedBase:
            inj = InjectedBase(k)
            kind = 'raise-base'
        elif exc_cls is None or exc_cls is Injected:
            inj = Injected(k)
            kind = 'raise'
        else:
            inj = exc_cls(k)
            kind = 'raise-' + exc_cls.__name__[8:].lower()
        site = '%s@%s' % (opname, label)
        io.progress({'site': site, 'k': k, 'tape': tape.values})
        cnt = [0]

        def hook(lab, cnt=cnt, k=k, inj=inj):
            cnt[0] += 1
            if cnt[0] == k:
                raise inj

        refs_b = refcounts(tracked, buf_b)
        n_b = gc_count()
        rc_b = sys.getrefcount(inj)
        ts_b = TS.counters()
        U.HOOK = hook
        got = outcome(fn, scn)
        U.HOOK = None
        ts_a = TS.counters()
        verdict = 'ok' if got[0] == 'ok' else ('same' if got[1] is inj else 'other')
        if (verdict == 'other' and type(got[1]) is KeyError and len(got[1].args) == 1 and id(got[1].args[0]) in od_keys
                and label in ('key.__hash__', 'ukey.__hash__', 'key.__eq__', 'ukey.__eq__')):
            # CPython's own OrderedDict iteration (odictiter_iternext -> PyODict_GetItem) replaces an exception raised by
            # a key's __hash__/__eq__ with KeyError(key) before optree sees anything; not optree's to preserve.
            verdict = 'same'
            probes['cpython-odict-keyerror'] = probes.get('cpython-odict-keyerror', 0) + 1
        got_desc = describe_outcome(got) if verdict != 'same' else ''
        del got
        inj.__traceback__ = None
        inj.__context__ = None
        inj.__cause__ = None
        # ---- ledger (measured before any oracle allocates)
        refs_a = refcounts(tracked, buf_a)
        n_a = gc_count()
        rc_a = sys.getrefcount(inj)
        leak = None
        if refs_a != refs_b or n_a != n_b or rc_a != rc_b:
            # confirm: a one-off lazy initialisation is not a leak; repeat the same fault and compare again
            cnt[0] = 0
            U.HOOK = hook
            got = outcome(fn, scn)
            U.HOOK = None
            del got
            inj.__traceback__ = None
            inj.__context__ = None
            inj.__cause__ = None
            refs_c = refcounts(tracked, buf_c)
            n_c = gc_count()
            rc_c = sys.getrefcount(inj)
            # Drift must repeat in the same direction to count: the collector lazily *untracks* nested tuples and
            # atomic dicts one level per full collection, so a shrinking object count is normal background.
            # a reference to a scenario object that is still held after the failed call — even if a repetition does not add
            # another one (a one-slot buffer that is only overwritten by the next call) — already breaks "reference counts
            # are what they were before the call"; the refcount arrays have no background noise (only the gc object COUNT has)
            retained = [(type(o).__name__, b, a, c) for o, b, a, c in zip(tracked, refs_b, refs_a, refs_c) if a > b and c >= a]
            grew = [(type(o).__name__, b, a, c) for o, b, a, c in zip(tracked, refs_b, refs_a, refs_c) if a > b and c > a]
            shrank = [(type(o).__name__, b, a, c) for o, b, a, c in zip(tracked, refs_b, refs_a, refs_c) if a < b and c < a]
            if grew or (n_a > n_b and n_c > n_a) or (rc_a > rc_b and rc_c > rc_a):
                leak = ('leak', 'reference counts grow with every failed call: objects (type, before, after 1st, after 2nd) %r; '
                        'live gc objects %d -> %d -> %d; injected exception refcount %d -> %d -> %d'
                        % (grew[:6], n_b, n_a, n_c, rc_b, rc_a, rc_c))
            elif retained:
                leak = ('retained', 'a reference to %d scenario object(s) is still held after the failed call (bounded: a repetition does '
                        'not add another): (type, before, after 1st, after 2nd) %r' % (len(retained), retained[:6]))
            elif shrank:
                leak = ('over-release', 'reference counts shrink with every failed call: objects (type, before, after 1st, '
                        'after 2nd) %r' % (shrank[:6],))
        steps += cnt[0]
        faults_fired[kind] += 1
        keys.add('%s|%s|%s|%d' % (opname, label, kind, bucket(site_ord[k - 1])))
        if leak:
            viol(leak[0], site, leak[1])
        if ts_a != ts_b:
            # the calling thread's recursion budget (Python frames, C recursion) is interpreter state the failed call must
            # hand back: an Enter/LeaveRecursiveCall pair skipped on the exceptional path shows here and nowhere else
            viol('thread-state', site, 'recursion counters of the calling thread (python frames remaining, C recursion remaining) '
                 'changed across the failed call: %r -> %r' % (ts_b, ts_a))
        if cnt[0] < k:
            viol('unstable', site, 'faulted execution made only %d of the %d callback calls before fault %d' % (cnt[0], K, k))
        elif kind == 'raise-typeerror-lt':
            pass  # the engine is specified to absorb it; only residue oracles apply
        elif verdict == 'ok':
            viol('swallowed', site, 'callback #%d raised %s but the operation returned %s' % (k, type(inj).__name__, got_desc))
        elif verdict == 'other':
            viol('replaced', site, 'callback #%d raised %s but the caller saw %s' % (k, type(inj).__name__, got_desc))
        # ---- residue
        if V is not None:
            snap = V.snapshots()
            if snap.get('hash_running') or snap.get('repr_running'):
                viol('guard-residue', site, 'hash/repr re-entrancy markers left behind: %r' % {x: snap.get(x) for x in ('hash_running', 'repr_running')})
            held = V.held_locks()
            if held:
                viol('lock-held', site, 'engine lock still held after the failed call: %r' % (held,))
        obs = (hash(scn.spec), repr(scn.spec), hash(scn.prefix_spec), repr(scn.prefix_spec))
        if obs != spec_obs:
            viol('spec-changed', site, 'hash/repr of an involved treespec changed after the failed call: %r -> %r' % (spec_obs[1::2], obs[1::2]))
        d = same(tree_before, scn.tree)
        if d:
            viol('input-mutated', site, 'input tree differs after the failed call: %s' % d)
        # ---- the failed call must be invisible to what follows
        ev = []
        U.HOOK = ev.append
        again = outcome(fn, scn)
        U.HOOK = None
        d = same_outcome(base, again)
        if d or ev != labels:
            viol('after-effect', site, 'fault-free re-execution after the failed call differs from the baseline: %s (events %d vs %d)' % (d, len(ev), K))
        del again, ev
        if violations and len(violations) >= 6:
            break

    # ---- pairs of faults across two consecutive operations (residue interactions)
    pairs_done = 0
    if K > 0 and not violations:
        op2 = tape.choice(OP_NAMES, 'op2')
        fn2 = OPS[op2]
        ev2 = []
        U.HOOK = ev2.append
        base_b = outcome(fn2, scn)
        U.HOOK = None
        labels_b = list(ev2)
        if labels_b:
            for _ in range(min(6, K)):
                k1 = ks[tape.draw(len(ks), 'pair-k1')]
                k2 = 1 + tape.draw(len(labels_b), 'pair-k2')
                site = '%s@%s+%s@%s' % (opname, labels[k1 - 1], op2, labels_b[k2 - 1])
                io.progress({'site': site, 'tape': tape.values})
                inj1, inj2 = Injected(('pair', 1)), Injected(('pair', 2))
                res = []
                for f_, kk, inj in ((fn, k1, inj1), (fn2, k2, inj2)):
                    c = [0]

                    def hook(lab, c=c, kk=kk, inj=inj):
                        c[0] += 1
                        if c[0] == kk:
                            raise inj
                    U.HOOK = hook
                    got = outcome(f_, scn)
                    U.HOOK = None
                    res.append('ok' if got[0] == 'ok' else ('same' if got[1] is inj else 'other:' + describe_outcome(got)))
                    del got
                    inj.__traceback__ = inj.__context__ = inj.__cause__ = None
                pairs_done += 1
                faults_fired['raise'] += 2
                lab1, lab2 = labels[k1 - 1], labels_b[k2 - 1]
                for r, lab in ((res[0], lab1), (res[1], lab2)):
                    if r != 'same' and not (lab.endswith('key.__hash__') or lab.endswith('key.__eq__')):
                        viol('pair-' + ('swallowed' if r == 'ok' else 'replaced'), site, 'second-order fault: outcomes %r' % (res,))
                if V is not None:
                    snap = V.snapshots()
                    if snap.get('hash_running') or snap.get('repr_running') or V.held_locks():
                        viol('guard-residue', site, 'residue after two consecutive failed calls: %r %r' % (snap, V.held_locks()))
                if (hash(scn.spec), repr(scn.spec), hash(scn.prefix_spec), repr(scn.prefix_spec)) != spec_obs:
                    viol('spec-changed', site, 'treespec hash/repr changed after two consecutive failed calls')
                for f_, b_, labs in ((fn, base, labels), (fn2, base_b, labels_b)):
                    ev = []
                    U.HOOK = ev.append
                    again = outcome(f_, scn)
                    U.HOOK = None
                    d = same_outcome(b_, again)
                    if d or ev != labs:
                        viol('after-effect', site, 'fault-free re-execution after two consecutive failed calls differs: %s (events %d vs %d)' % (d, len(ev), len(labs)))
                    del again, ev
                keys.add('pair|%s|%s|%s|%s' % (opname, lab1, op2, lab2))
                if violations:
                    break
        del base_b

    # ---- malformed custom flatten returns
    malformed_checked = 0
    if any(isinstance(x, U.Node) for x in _walk_custom(scn)):
        for (_cls, _ns, f) in scn.reg.live:
            for m in U.MALFORMS:
                f.malform = m
                site = '%s@malformed:%s' % (opname, m)
                io.progress({'site': site, 'tape': tape.values})
                got = outcome(fn, scn)
                f.malform = None
                malformed_checked += 1
                faults_fired['malformed'] += 1
                if got[0] == 'exc':
                    e = got[1]
                    if isinstance(e, SystemError) or not isinstance(e, (RuntimeError, ValueError, TypeError)):
                        if not (base[0] == 'exc' and type(base[1]) is type(e)):
                            viol('internal-error', site, 'malformed flatten result raised %s' % describe_outcome(got))
                    keys.add('%s|malformed|%s|%s' % (opname, m, type(e).__name__))
                del got
    # ---- a leaf iterator that is used again after one of its next() calls failed: what it yields across the failure must
    # still be an in-order, repeat-free subsequence of the tree's leaves (the node being expanded when the callback failed may be
    # lost — Python gives iterators no resumption contract — but nothing may be delivered twice or out of order)
    if not violations:
        U.HOOK = None
        base_leaves = list(optree.tree_iter(scn.tree, is_leaf=scn.pred, **scn.kw))
        ev_it = []
        U.HOOK = ev_it.append
        list(optree.tree_iter(scn.tree, is_leaf=scn.pred, **scn.kw))
        U.HOOK = None
        pos = {id(x): i for i, x in enumerate(base_leaves)}
        if len(pos) == len(base_leaves):  # identity is only a usable key when no leaf object occurs twice
            for k in range(1, min(len(ev_it), 40) + 1):
                io.progress({'site': 'iter-resume@%s' % ev_it[k - 1], 'tape': tape.values})
                inj = Injected(('iter', k))
                c = [0]

                def hook(lab, c=c, k=k, inj=inj):
                    c[0] += 1
                    if c[0] == k:
                        raise inj
                it = optree.tree_iter(scn.tree, is_leaf=scn.pred, **scn.kw)
                got = []
                U.HOOK = hook
                failed = 0
                while True:
                    try:
                        got.append(next(it))
                    except StopIteration:
                        break
                    except Injected:
                        failed += 1
                        if failed > 1:
                            break
                U.HOOK = None
                inj.__traceback__ = None
                faults_fired['raise'] += 1
                idx = [pos.get(id(x), -1) for x in got]
                if -1 in idx or any(b <= a for a, b in zip(idx, idx[1:])):
                    viol('iterator-after-failure', 'iter-resume@%s' % ev_it[k - 1], 'after next() failed at callback #%d the iterator yielded leaves out of order / twice / unknown: positions %r of %d leaves' % (k, idx, len(base_leaves)))
                    break
                keys.add('iter-resume|%s|%d' % (ev_it[k - 1], bucket(k)))
                del it, got

    # ---- malformed returns must be judged the same way by every entry point that reaches the custom flatten function
    if not violations:
        insts = {}
        for x in _walk_custom(scn):
            if isinstance(x, U.Node) and type(x) not in insts:
                insts[type(x)] = x
        kw = scn.kw
        entry_points = (
            ('flatten', lambda node: optree.tree_flatten(scn.tree, **kw)),
            ('flatten_with_path', lambda node: optree.tree_flatten_with_path(scn.tree, **kw)),
            ('iter', lambda node: list(optree.tree_iter(scn.tree, **kw))),
            ('map', lambda node: optree.tree_map(lambda x: x, scn.tree, **kw)),
            ('leaves', lambda node: optree.tree_leaves(scn.tree, **kw)),
            ('one_level', lambda node: optree.tree_flatten_one_level(node, **kw)),
            ('node_flatten', lambda node: optree.tree_flatten(node, **kw)),
            ('node_with_path', lambda node: optree.tree_flatten_with_path(node, **kw)),
            ('node_iter', lambda node: list(optree.tree_iter(node, **kw))),
            # the constructor route reaches the custom flatten function too (the collection's values must be treespecs: the
            # malformed function is consulted before they are looked at)
            ('from_collection', lambda node: optree.treespec_from_collection(type(node)([optree.treespec_leaf(none_is_leaf=kw['none_is_leaf'])] * max(len(node.children), 1), node.aux), **kw)),
            ('flatten_up_to', lambda node: optree.tree_structure([0], **kw).compose(optree.treespec_leaf(none_is_leaf=kw['none_is_leaf'])) and _spec_of_node(node, f_current[0], kw).flatten_up_to(node)),
        )
        f_current = [None]
        buf0, buf1 = array('q', [0] * len(tracked)), array('q', [0] * len(tracked))
        for (_cls, _ns, f) in scn.reg.live:
            node = insts.get(_cls)
            if node is None:
                continue
            f_current[0] = f
            for m in U.MALFORMS + ('list3', 'len0'):
                seen = {}
                for ename, ep in entry_points:
                    site = '%s@malformed:%s' % (ename, m)
                    io.progress({'site': site, 'tape': tape.values})
                    refcounts(tracked, buf0)
                    calls0 = f.flatten_calls
                    f.malform = m
                    try:
                        ep(node)
                        oc = 'ok'
                    except BaseException as e:  # noqa: BLE001
                        oc = type(e).__name__
                        if isinstance(e, SystemError) or not isinstance(e, (RuntimeError, ValueError, TypeError)):
                            viol('internal-error', site, 'malformed custom flatten result (%s) raised %s: %s' % (m, type(e).__name__, e))
                        e.__traceback__ = None
                        del e
                    finally:
                        f.malform = None
                    if f.flatten_calls != calls0:  # this entry point really reached the malformed function
                        seen[ename] = oc
                        faults_fired['malformed'] += 1
                        refcounts(tracked, buf1)
                        grew = [(type(o).__name__, a, b) for o, a, b in zip(tracked, buf0, buf1) if b > a]
                        if grew:
                            viol('retained', site, 'references still held after a malformed flatten result (%s) was rejected: %r' % (m, grew[:6]))
                # the flatten-family entry points must agree on the exception class; the constructor and flatten_up_to run other
                # validations of their own first (values must be treespecs; arity against the treespec), so for them only
                # accept-or-refuse has to agree
                classic = {k: v for k, v in seen.items() if k not in ('from_collection', 'flatten_up_to')}
                if len(set(classic.values())) > 1 or len({v == 'ok' for v in seen.values()}) > 1:
                    viol('malformed-disagree', 'malformed:%s' % m, 'entry points judge the same malformed custom flatten result (%s) differently: %r' % (m, seen))
                for ename, oc in seen.items():
                    keys.add('malformed|%s|%s|%s' % (ename, m, oc))
                if violations:
                    break
            if violations:
                break
    # ---- wrong leaf counts raise the documented ValueError, whatever kind of iterable carries the leaves (a lazy producer's
    # count is only known by consuming it) -- never a tree, never an internal error
    if not violations:
        U.HOOK = None
        nl = scn.spec.num_leaves
        base_lv = [U.Leaf(50000 + i) for i in range(nl + nl + 3)]
        for k in sorted({max(nl - 1, 0), nl + 1, nl + 2, nl + nl + 2} - {nl}):
            lv = base_lv[:k]
            producers = (('list', lambda: lv), ('tuple', lambda: tuple(lv)), ('iter', lambda: iter(lv)), ('generator', lambda: (x for x in lv)),
                         ('map', lambda: map(lambda x: x, lv)), ('deque', lambda: collections.deque(lv)), ('reversed', lambda: reversed(lv)))
            for pname, mkp in producers:
                for how, call in (('unflatten', lambda p: optree.tree_unflatten(scn.spec, p)), ('method', lambda p: scn.spec.unflatten(p)),
                                  ('walk', lambda p: scn.spec.walk(p)), ('traverse', lambda p: scn.spec.traverse(p))):
                    site = 'leaf-count:%s:%s' % (how, pname)
                    io.progress({'site': site, 'tape': tape.values})
                    try:
                        call(mkp())
                        viol('wrong-count-accepted', site, '%s accepted %d leaves (as a %s) for a treespec with %d leaves' % (how, k, pname, nl))
                    except ValueError:
                        pass
                    except Exception as e:  # noqa: BLE001
                        viol('internal-error', site, '%s with %d leaves (as a %s) for a treespec with %d leaves raised %s: %s' % (how, k, pname, nl, type(e).__name__, e))
            probes['leaf-count-checked'] = probes.get('leaf-count-checked', 0) + 1
    scn_tree = ops_desc['tree']
    scn.close()
    sample = {'op': opname, 'K': K, 'events_head': labels[:12], 'tree': scn_tree[:200], 'faults_injected': len(ks),
              'malformed_checked': malformed_checked}
    import hashlib
    dig = hashlib.sha256(repr((opname, labels, describe_outcome(base), [v['cls'] + v['site'] for v in violations], sorted(keys))).encode()).hexdigest()
    out = {'digest': dig, 'violations': violations, 'keys': sorted(keys), 'steps': steps + 2 * K, 'probes': probes,
           'faults_cfg': {k: 1 for k, v in faults_fired.items() if v}, 'faults_fired': dict(faults_fired),
           'sample': sample if job.get('i', 0) % 50 == 0 else None, 'extra': {'fault_points': len(ks), 'pairs_with_callbacks': int(K > 0), 'fault_pairs': pairs_done}}
    if violations or job.get('_min') or job.get('_stream_tape'):
        out['tape'] = tape.values
        out['ops'] = ops_desc
    return out


def _walk_custom(scn):
    from optsim.scenario import walk
    return walk(scn.tree)
