NOTES = ('Technique family: deterministic simulation with fault injection. Exit codes of every command: 0 held, '
         '1 violation (VIOLATION line + replay file), 2 harness broken (never a pass). KNOWN-FINDING lines come from '
         'known_findings.jsonl only. See DESIGN.md.')

ENGINES = [
    {'name': 'optsim', 'path': 'optsim/', 'serves_properties': ['C11', 'C12', 'C13', 'C14', 'C15', 'C16', 'C17', 'C18'],
     'kind_free_text': 'deterministic simulation kernel written here: choice tape (one PRNG = one run), real threads with one '
                       'baton and seeded scheduling policies, simulated Python lock, instrumented engine rwlock seam (hook build), '
                       'fault injection at every engine->Python call site, fork-per-run zygote pool, tape delta-debugging, replay files'},
]


def fill(register, pending):
    register('C15', 'fault_enumeration',
             'for seed-sampled (operation, scenario) pairs every callback invocation index k=1..K is injected exhaustively '
             '(one fault per execution) and judged by exception identity, refcount ledger, guard/lock residue and a fault-free '
             're-execution, plus the calling thread\'s recursion counters (thread-state ledger), a success-path ledger, wrong leaf counts over seven kinds of producer and malformed flatten results through every entry point; the pairs are sampled, so the property-level claim is exploration with exhaustive fault positions per pair',
             'trusts CPython refcount/gc introspection and the instrumented class universe; GIL build only; '
             'single-process fork-per-run isolation',
             'deterministic simulation: seeded scenario generation + exhaustive k-th-callback fault injection with refcount-ledger oracle',
             'DESIGN.md section 4 (C15)', 'checks/c15_cbfault.py')
    register('C16', 'fault_enumeration',
             'for seed-sampled (traversal, tree) pairs every callback index k is combined with every interference in '
             '{delete-front, delete-back, clear, append, replace} x {containers on/near the traversal path} plus re-entry and gc, '
             'on the plain-semantics build (fatal signals) and on an ASan+UBSan build (reports); deterministic sweeps of nesting '
             'depth L-1..L+2 for every node kind (+ self-reference, composed treespecs deeper than any tree, wide nodes), seeded argument-confusion calls over every entry point incl. the Python layer, and stored-state corruption (flipped fields / torn node lists / flipped bytes of pickled treespecs)',
             'memory safety is judged by process survival and sanitizer silence; ASan main-thread stack limit raised to 512 MiB '
             'because instrumented frames are ~10x larger; GIL build only',
             'deterministic simulation: exhaustive k-th-callback re-entrant mutation / re-entry injection under sanitizers, fork-per-run crash isolation',
             'DESIGN.md section 4 (C16)', 'checks/c16_reentry.py')
    register('C14', 'exploration',
             'seeded histories of create / mutate-source / mutate-handout / operand (incl. failing ops) / registry change / drop / gc / '
             'cycle steps over a pool of live treespecs; after every step every live treespec is re-observed (repr, hash, paths, '
             'accessors, entries, children, unflatten incl. which registration builds each node) and every argument compared with its clone',
             'observation covers the public inspection surface only; sampled histories (not exhaustive); GIL build only',
             'deterministic simulation: seeded stateful histories with before/after observation snapshots and weakref/gc oracles',
             'DESIGN.md section 4 (C14)', 'checks/c14_alias.py')
    register('C12', 'exploration',
             'seeded histories (thorough: plus an exhaustive sweep of all 2 954 histories of length <= 3 over a 14-symbol alphabet) of '
             'register / register_class / dataclass / unregister with argument faults, warnings-as-errors, raising warning hooks and '
             'raising metaclass hooks, applied to the real registry and to a map model; behaviour, Python mirror (get with and '
             'without class, tree_flatten_one_level) and engine snapshot compared with the model after every step, atomicity after '
             'every failing step, reversibility at the end',
             'model = dict[(namespace, type)] -> registration with lookup N then global then heuristics; engine snapshot read through '
             'the guarded hook; asynchronous exceptions not injected',
             'deterministic simulation: seeded stateful operation+fault histories against an executable reference model',
             'DESIGN.md section 4 (C12)', 'checks/c12_registry.py')
    register('C17', 'exploration',
             'seeded search over interleavings of 2-4 real threads at callback / Python-line / lock granularity (sticky, uniform, '
             'PCT d<=3, single-switch sweeps, scripted two-switch sweeps) across eleven scenario templates; oracles: per-operation equality with the solo '
             'reference, exactly-once racing registration, old-or-new per node for flatten overlapping re-registration, '
             'exactly-once delivery of a shared iterator, deterministic deadlock detection through the instrumented engine '
             'rwlocks and the simulated registry lock, quiescent registry/guard/lock invariants',
             'GIL build only (free-threaded code paths not compiled); the interleaving granularity is complete for the GIL build '
             'at steady state (see DESIGN.md 1.1); schedules are sampled, not enumerated',
             'deterministic simulation: baton-passing real threads under a seeded scheduler with lock seams and schedule-tape replay',
             'DESIGN.md section 4 (C17)', 'checks/c17_threads.py')
    register('C13', 'exploration',
             'seeded block programs (thorough: plus every well-nested program of <= 3 blocks x 6 enter symbols x exception position) '
             'of dict_insertion_ordered blocks with nested / sibling / exception / non-LIFO-across-namespaces exits, against a '
             'saved-flag model; all namespaces observed after every step through engine flags, the flatten family, treespec '
             'constructors, registry lookup, one-level flatten, iterators that outlive their block and a generated tree\'s round trip',
             'single task (the mode switch is documented as not thread-safe); model: per-namespace flag with saved-value restore',
             'deterministic simulation: seeded stateful block/exception histories against an executable mode-stack model',
             'DESIGN.md section 4 (C13)', 'checks/c13_dictmode.py')
    register('C18', 'exploration',
             'seeded cache histories over a per-run class universe (18 shapes + real struct sequences): create / query / drop / gc / '
             'churn beyond a shrunken cache cap / cap changes; after every step engine answers = cache-free twin answers for every '
             'live class on class and instance forms incl. exception type, cache entries belong to live types and hold fresh '
             'answers, freed classes are evicted before their address can be reused; plus sort-twin and one-level-twin comparisons',
             'address reuse is provoked and counted, not controlled (hundreds of thousands of reuses per quick run); cap knob only in '
             'the hook build; thorough runs also fill the default 4096-slot cache',
             'deterministic simulation: seeded create/free/gc histories with a cache-capacity knob and twin-implementation oracle',
             'DESIGN.md section 4 (C18)', 'checks/c18_cache.py')
    register('C11', 'exploration',
             'seeded (registration log, trees, flatten options, protocol) scenarios pickled in one process and loaded after a '
             'tape-chosen history: same process, gc, registry drift (unregister / re-register same / global only) or a restart into '
             'a real fresh interpreter replaying the same log, a log with one entry missing, or one entry in another namespace; '
             'oracle O1 (==, hash, repr, paths, accessors, entries, children recursively, counts, unflatten incl. dict key order and '
             'which registration rebuilds each node, equality with a fresh flatten there) or O2 (load raises, process stays healthy)',
             'the "for every treespec" part is sampled; re-binding to a different registration is outside the statement; what corrupted '
             'bytes mean is not asserted here (that they cannot crash the interpreter is checked by C16); hashes are compared within one interpreter only',
             'deterministic simulation: crash/restart of the loading party with a replayed (possibly drifted) registration log; only pickled bytes survive',
             'DESIGN.md section 4 (C11)', 'checks/c11_restart.py')
