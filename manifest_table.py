NOTES = ('Technique family: deterministic simulation with fault injection. Exit codes of every command: 0 held, '
         '1 violation (VIOLATION line + replay file), 2 harness broken (never a pass). KNOWN-FINDING lines come from '
         'known_findings.jsonl only. See DESIGN.md.')

ENGINES = [
    {'name': 'optsim', 'path': 'optsim/', 'serves_properties': ['C11', 'C12', 'C13', 'C14', 'C15', 'C16', 'C17', 'C18'],
     'kind_free_text': 'deterministic simulation kernel written here: choice tape (one PRNG = one run), real threads with one '
                       'baton and seeded scheduling policies, simulated Python lock, instrumented engine rwlock seam (hook build), '
                       'fault injection at every engine->Python call site, fork-per-run zygote pool, tape delta-debugging, replay files'},
]


def fill(register, pending):
    register('C15', 'fault_enumeration',
             'for seed-sampled (operation, scenario) pairs every callback invocation index k=1..K is injected exhaustively '
             '(one fault per execution) and judged by exception identity, refcount ledger, guard/lock residue and a fault-free '
             're-execution; the pairs are sampled, so the property-level claim is exploration with exhaustive fault positions per pair',
             'trusts CPython refcount/gc introspection and the instrumented class universe; GIL build only; '
             'single-process fork-per-run isolation',
             'deterministic simulation: seeded scenario generation + exhaustive k-th-callback fault injection with refcount-ledger oracle',
             'DESIGN.md section 4 (C15)', 'checks/c15_cbfault.py')
    for pid in ('C11', 'C12', 'C13', 'C14', 'C16', 'C17', 'C18'):
        pending[pid] = 'simulation check designed (DESIGN.md section 4) but not yet built at this commit; not claimed until its engine is committed'
