#!/usr/bin/env python3
"""Regenerates MANIFEST.json from the table below (keeps it valid at all times)."""
import json, os, subprocess
HERE = os.path.dirname(os.path.abspath(__file__))

NA = {
 'C01': 'round-trip exactness is a pure function of (tree, options): no schedule, fault, crash point or history for a simulator to own',
 'C02': 'leaf order / classification is a pure function of (tree, registry contents, options); needs differential input testing, not simulation',
 'C03': 'agreement of the traversal entry points is a relation between pure functions of one input',
 'C04': 'path/accessor correctness is a pure function of the tree',
 'C05': 'tree_map call count/order/alignment is a pure function of (f, tree, rests); the failing-f case is decided under C15',
 'C06': 'treespec ==/hash laws are algebraic laws over pairs of values; nothing to schedule or fault',
 'C07': 'prefix matching and the agreement of its three implementations are pure functions of (spec, tree)',
 'C08': 'inspection/constructor/transform/compose consistency is an algebraic law of the encoding; pure',
 'C09': 'broadcasting is a pure function of the operand trees (operand mutation side effects are decided under C14)',
 'C10': 'transposition is a pure function of (outer, inner, tree, f)',
 'C19': 'dataclass/partial flattening is a pure function of field layout and values; registration side effects are decided under C12',
 'C20': 'ravel/unravel is numeric pure-function behaviour of three array back ends; no concurrency, time, I/O or history involved',
}

CHECKS = {}  # filled by register()

def register(pid, category, text, note, technique, design_ref, engine):
    CHECKS[pid] = {
        'property_id': pid,
        'quick_cmd': './run check %s --tier quick' % pid,
        'thorough_cmd': './run check %s --tier thorough' % pid,
        'evidence_file': 'evidence/%s.json' % pid,
        'replay_cmd_template': './run replay {path}',
        'engine': engine,
        'level_claimed': {'category': category, 'text': text, 'design_ref': design_ref},
        'level_note': note,
        'technique': technique,
    }

PENDING = {}

def main():
    import manifest_table
    manifest_table.fill(register, PENDING)
    na = [{'property_id': k, 'reason': v} for k, v in sorted(NA.items())]
    for k, v in sorted(PENDING.items()):
        na.append({'property_id': k, 'reason': v})
    hooks_commits = subprocess.run(['git', '-C', '/repo', 'log', '--format=%H %s'], capture_output=True, text=True).stdout.splitlines()
    hook_shas = [l.split()[0] for l in hooks_commits if l.split(' ', 1)[1].startswith('verif hooks')]
    m = {
        'version': 1,
        'setup_cmd': './run build hooks asan plain',
        'hooks': {
            'guard': 'OPTREE_VERIF',
            'enable': 'environment variable OPTREE_VERIF=1 at build time makes CMakeLists.txt add -DOPTREE_VERIF_HOOKS; /verif/optsim/build.py passes -DOPTREE_VERIF_HOOKS directly when it compiles the working tree into /verif/.cache/ov-<hash>/{hooks,asan}',
            'baseline_off_cmd': './baseline_off.sh',
            'source_commits': hook_shas,
            'add_only': True,
        },
        'engines': manifest_table.ENGINES,
        'checks': [CHECKS[k] for k in sorted(CHECKS)],
        'not_applicable': na,
        'notes': manifest_table.NOTES,
    }
    with open(os.path.join(HERE, 'MANIFEST.json'), 'w') as f:
        json.dump(m, f, indent=1)
    print('MANIFEST.json written: %d checks, %d not applicable' % (len(CHECKS), len(na)))

if __name__ == '__main__':
    main()
