#!/bin/bash
# usage: tools/confirm_seeded.sh <worktree> <seeded dir>   -- confirms demo fails with the change and passes without it, in the scratch worktree
WT=$1; SD=$(realpath $2)
cd $WT || exit 3
cmp -s $WT/_seeded/demo.py $SD/demo.py || { echo "demo copy differs"; exit 3; }
git checkout -q -- src include optree 2>/dev/null
git apply $SD/patch.diff || { echo "patch does not apply in worktree"; exit 3; }
/tmp/tools/build_optree.sh $WT >/dev/null 2>&1 || { echo BUILD-FAILED-WITH; exit 3; }
timeout 300 /venv/bin/python $WT/_seeded/demo.py >/tmp/demo_with.log 2>&1; W=$?
git checkout -q -- src include optree
/tmp/tools/build_optree.sh $WT >/dev/null 2>&1 || { echo BUILD-FAILED-WITHOUT; exit 3; }
timeout 300 /venv/bin/python $WT/_seeded/demo.py >/tmp/demo_without.log 2>&1; WO=$?
echo "demo with change: exit=$W ($(tail -1 /tmp/demo_with.log | cut -c1-200)) ; without: exit=$WO ($(tail -1 /tmp/demo_without.log | cut -c1-100))"
