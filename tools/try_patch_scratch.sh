#!/bin/bash
# usage: tools/try_patch_scratch.sh <patch.diff> <budget_s> <Cxx> [Cxx ...]
# Same as try_patch.sh but applies the seeded defect to a scratch worktree of /repo (outside /repo and /verif) and points
# the build at it with VERIF_REPO, so /repo itself is never touched (safe while background soak runs use /repo).
set -u
PATCH=$(realpath "$1"); BUDGET=$2; shift 2
S=/tmp/repo-try-$$
git -C /repo worktree add --detach $S HEAD -q || exit 3
trap 'git -C /repo worktree remove --force '$S'; git -C /repo worktree prune' EXIT
git -C $S apply "$PATCH" 2>/dev/null || git -C $S apply --3way "$PATCH" 2>/dev/null || { echo "patch does not apply"; exit 3; }
cd /verif
for id in "$@"; do
  # the run rewrites evidence/<id>.json; what is committed must describe the UNCHANGED tree, so put the file back afterwards
  cp -f evidence/$id.json /var/tmp/evidence-$id-$$.json 2>/dev/null
  out=$(VERIF_REPO=$S VERIF_BUDGET_S=$BUDGET timeout 1800 ./run check "$id" --tier quick 2>&1)
  code=$?
  [ -f /var/tmp/evidence-$id-$$.json ] && mv -f /var/tmp/evidence-$id-$$.json evidence/$id.json
  echo "$id exit=$code $(echo "$out" | grep -c '^VIOLATION') violation line(s); $(echo "$out" | grep '^  signature' | head -3 | tr '\n' ' ')"
  echo "$out" | tail -1
done
