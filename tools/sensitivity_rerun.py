#!/usr/bin/env python3
"""tools/sensitivity_rerun.py [budget_s]: re-run the entries of evidence/selftest_sensitivity.json that were not as expected (a patch that has
been re-done since, or a miss under a short budget on a loaded machine) plus every seeded defect not yet in the file, with a larger
budget, and rewrite the JSON and seeded/SENSITIVITY.md."""
import glob, json, os, subprocess, sys, time
HERE = os.path.dirname(os.path.dirname(os.path.abspath(__file__)))
budget = sys.argv[1] if len(sys.argv) > 1 else '60'
path = os.path.join(HERE, 'evidence', 'selftest_sensitivity.json')
data = json.load(open(path))
rows = {r['name']: r for r in data['results']}
todo = [n for n, r in rows.items() if not r['as_expected']]
for m in sorted(glob.glob(os.path.join(HERE, 'seeded', '*', 'meta.json'))):
    n = os.path.basename(os.path.dirname(m))
    if n not in rows:
        todo.append(n)
for name in todo:
    d = os.path.join(HERE, 'seeded', name)
    meta = json.load(open(os.path.join(d, 'meta.json')))
    prop = meta.get('run_check') or meta['breaks_property']
    expect_caught = bool(meta.get('caught_by'))
    t0 = time.time()
    r = subprocess.run([os.path.join(HERE, 'tools', 'try_patch_scratch.sh'), os.path.join(d, 'patch.diff'), budget, prop], capture_output=True, text=True)
    line = [l for l in r.stdout.splitlines() if l.startswith(prop + ' exit=')]
    code = line[0].split('exit=')[1].split()[0] if line else '?'
    sigs = line[0].split(';', 1)[1].strip()[:200] if line else r.stdout[-200:]
    ok = (code == '1') if expect_caught else (code == '0')
    rows[name] = {'name': name, 'property': prop, 'exit': code, 'expected': 'caught' if expect_caught else ('obsolete: unreachable on the repaired base' if meta.get('obsolete_since') else 'not caught (out of scope)'),
                  'as_expected': ok, 'signatures': sigs, 'wall_s': round(time.time() - t0, 1), 'budget_s': budget}
    print('%-62s %s exit=%s %s %s' % (name, prop, code, 'OK' if ok else 'UNEXPECTED', sigs[:90]), flush=True)
res = [rows[k] for k in sorted(rows)]
out = ['# Sensitivity re-run: every seeded defect against the quick tier of its owning check (exploration budget %s s each; entries with their own budget_s were re-run with that budget)' % data['budget_s'], '',
       '| seeded defect | property | exit | expected | as expected | first signatures |', '|---|---|---|---|---|---|']
for r in res:
    out.append('| `%s` | %s | %s | %s | %s | %s |' % (r['name'], r['property'], r['exit'], r['expected'], 'yes' if r['as_expected'] else '**NO**', r['signatures'].replace('|', '/')))
open(os.path.join(HERE, 'seeded', 'SENSITIVITY.md'), 'w').write('\n'.join(out) + '\n')
json.dump({'budget_s': data['budget_s'], 'results': res, 'all_as_expected': all(r['as_expected'] for r in res)}, open(path, 'w'), indent=1)
print('all as expected:', all(r['as_expected'] for r in res), len(res))
