#!/usr/bin/env python3
"""Regenerates seeded/SUMMARY.md from seeded/*/meta.json."""
import json, os, glob
HERE = os.path.dirname(os.path.dirname(os.path.abspath(__file__)))
rows = []
for m in sorted(glob.glob(os.path.join(HERE, 'seeded', '*', 'meta.json'))):
    d = json.load(open(m))
    name = os.path.basename(os.path.dirname(m))
    rows.append((d['breaks_property'], name, d))
out = ['# Seeded defects and which check catches them', '',
       'Each directory holds `patch.diff` (applies to /repo at `base_commit`), `demo.py` + `notes.md` (the author\'s demonstration) and',
       '`meta.json`. "first attempt" records an honest miss and what was strengthened.', '',
       '| property | seeded defect | author | needs to manifest | caught by | notes |', '|---|---|---|---|---|---|']
for prop, name, d in sorted(rows):
    res = d['checks_run']['result']
    note = 'caught at first attempt' if 'MISSED' not in res and 'first attempt' not in res else res
    if d.get('obsolete_since'):
        note = res + ' OBSOLETE since ' + d['obsolete_since']
    out.append('| %s | `%s` | %s | %s | %s | %s |' % (prop, name, d['author'].split('(')[0].strip(), d['needs_to_manifest'].replace('|', '/'),
                                                   '<br>'.join('`%s`' % c for c in d['caught_by']) or ('obsolete' if d.get('obsolete_since') else '**not caught**'), note.replace('|', '/')))
open(os.path.join(HERE, 'seeded', 'SUMMARY.md'), 'w').write('\n'.join(out) + '\n')
design = os.path.join(HERE, 'DESIGN.md')
d = open(design).read()
b, e = '<!-- SEEDED-SUMMARY-BEGIN -->', '<!-- SEEDED-SUMMARY-END -->'
if b in d and e in d:
    d = d[:d.index(b) + len(b)] + '\n' + '\n'.join(out[5:]) + '\n' + d[d.index(e):]
    open(design, 'w').write(d)
print('\n'.join(out))
