#!/usr/bin/env python3
"""tools/seeded_meta.py <seeded dir> <property> <author> <needs> <confirm line> <check result line> [caught_by...]"""
import json, sys, os
d, prop, author, needs, confirm, result = sys.argv[1:7]
caught = sys.argv[7:]
meta = {'breaks_property': prop, 'author': author, 'needs_to_manifest': needs,
        'confirmed': {'how': 'tools/confirm_seeded.sh <scratch worktree> <this dir> (build with and without the patch, run demo.py)', 'result': confirm},
        'checks_run': {'how': 'tools/try_patch.sh <this dir>/patch.diff <budget_s> <ids> (git -C /repo apply; ./run check <id> --tier quick; git -C /repo checkout -- .)', 'result': result},
        'caught_by': caught, 'base_commit': os.popen('git -C /repo rev-parse --short HEAD').read().strip()}
json.dump(meta, open(os.path.join(d, 'meta.json'), 'w'), indent=1)
print('wrote', os.path.join(d, 'meta.json'))
