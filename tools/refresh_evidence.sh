#!/bin/bash
# Rewrites evidence/<id>.json for all claimed checks from runs on the UNCHANGED /repo working tree (refuses if /repo is dirty).
cd "$(dirname "$0")/.." || exit 3
if [ -n "$(git -C /repo status --porcelain --untracked-files=no)" ]; then echo "/repo has uncommitted changes: evidence must come from the committed tree"; exit 3; fi
rc=0
for id in C11 C12 C13 C14 C15 C16 C17 C18; do
  out=$(timeout 1800 ./run check $id --tier quick 2>&1); code=$?
  echo "$id exit=$code $(echo "$out" | tail -1 | cut -c1-160)"
  [ $code -ne 0 ] && rc=1
done
python3 - <<'PY'
import json,sys
bad=0
for i in range(11,19):
    d=json.load(open('evidence/C%d.json'%i))
    c=d['coverage']
    if d['violations'] or c['distinct_nontrivial'] < 2 or c['evaluations'] < 10: bad=1; print('BAD evidence', i, d['violations'], c['distinct_nontrivial'], c['evaluations'])
sys.exit(bad)
PY
[ $? -ne 0 ] && rc=1
exit $rc
