#!/bin/bash
# usage: tools/try_patch.sh <patch.diff> <budget_s> <Cxx> [Cxx ...]
# Applies a seeded defect to /repo's working tree, runs the given checks (quick tier), restores /repo.
# Prints one line per check: "<id> exit=<code> <summary line>".  Never commits anything in /repo.
set -u
PATCH=$(realpath "$1"); BUDGET=$2; shift 2
cd /verif
if ! git -C /repo diff --quiet; then echo "/repo has uncommitted changes; refusing"; exit 3; fi
git -C /repo apply "$PATCH" || { echo "patch does not apply"; exit 3; }
trap 'git -C /repo checkout -- . ' EXIT
for id in "$@"; do
  out=$(VERIF_BUDGET_S=$BUDGET timeout 1800 ./run check "$id" --tier quick 2>&1)
  code=$?
  echo "$id exit=$code $(echo "$out" | grep -c '^VIOLATION') violation line(s); $(echo "$out" | grep '^  signature' | head -3 | tr '\n' ' ')"
  echo "$out" | tail -1
done
