#!/usr/bin/env python3
"""tools/sensitivity.py [budget_s] [name-filter]: re-run every seeded defect against the check that owns its property
(scratch worktree of /repo, never /repo itself) and write seeded/SENSITIVITY.md + evidence/selftest_sensitivity.json."""
import glob, json, os, subprocess, sys, time
HERE = os.path.dirname(os.path.dirname(os.path.abspath(__file__)))
budget = sys.argv[1] if len(sys.argv) > 1 else '20'
flt = sys.argv[2] if len(sys.argv) > 2 else ''
rows = []
for m in sorted(glob.glob(os.path.join(HERE, 'seeded', '*', 'meta.json'))):
    d = os.path.dirname(m)
    name = os.path.basename(d)
    if flt and flt not in name:
        continue
    meta = json.load(open(m))
    prop = meta.get('run_check') or meta['breaks_property']
    expect_caught = bool(meta.get('caught_by'))
    t0 = time.time()
    r = subprocess.run([os.path.join(HERE, 'tools', 'try_patch_scratch.sh'), os.path.join(d, 'patch.diff'), budget, prop], capture_output=True, text=True)
    line = [l for l in r.stdout.splitlines() if l.startswith(prop + ' exit=')]
    code = line[0].split('exit=')[1].split()[0] if line else '?'
    sigs = line[0].split(';', 1)[1].strip()[:200] if line else r.stdout[-200:]
    ok = (code == '1') if expect_caught else (code == '0')
    rows.append({'name': name, 'property': prop, 'exit': code, 'expected': 'caught' if expect_caught else ('obsolete: unreachable on the repaired base' if meta.get('obsolete_since') else 'not caught (out of scope)'), 'as_expected': ok,
                 'signatures': sigs, 'wall_s': round(time.time() - t0, 1)})
    print('%-62s %s exit=%s %s %s' % (name, prop, code, 'OK' if ok else 'UNEXPECTED', sigs[:90]), flush=True)
out = ['# Sensitivity re-run: every seeded defect against the quick tier of its owning check (budget %s s exploration each)' % budget, '',
       '| seeded defect | property | exit | expected | as expected | first signatures |', '|---|---|---|---|---|---|']
for r in rows:
    out.append('| `%s` | %s | %s | %s | %s | %s |' % (r['name'], r['property'], r['exit'], r['expected'], 'yes' if r['as_expected'] else '**NO**', r['signatures'].replace('|', '/')))
if not flt:
    open(os.path.join(HERE, 'seeded', 'SENSITIVITY.md'), 'w').write('\n'.join(out) + '\n')
    os.makedirs(os.path.join(HERE, 'evidence'), exist_ok=True)
    json.dump({'budget_s': budget, 'results': rows, 'all_as_expected': all(r['as_expected'] for r in rows)}, open(os.path.join(HERE, 'evidence', 'selftest_sensitivity.json'), 'w'), indent=1)
print('all as expected:', all(r['as_expected'] for r in rows))
