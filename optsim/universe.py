"""The fixed, importable class universe used by scenario generators (importable so that pickles
made in one interpreter load in another).  Every method the engine can call back into goes through
``HOOK(label)`` — the simulator's yield / fault point — when a hook is installed.

Nothing here draws randomness or keeps per-run state except ``HOOK`` and ``REG_ID``.
"""
from __future__ import annotations

import collections
import time
import typing

HOOK = None  # callable(label) installed by the engine for the duration of a run


def _h(label):
    hook = HOOK
    if hook is not None:
        hook(label)


class Leaf:
    """An opaque leaf with identity semantics."""

    __slots__ = ('i', '__weakref__')

    def __init__(self, i):
        self.i = i

    def __repr__(self):
        return 'L%d' % self.i

    def __reduce__(self):
        return (Leaf, (self.i,))


class Key:
    """Hashable, orderable dict key with instrumented dunders."""

    __slots__ = ('k',)

    def __init__(self, k):
        self.k = k

    def __hash__(self):
        _h('key.__hash__')
        return hash(('Key', self.k))

    def __eq__(self, other):
        _h('key.__eq__')
        return isinstance(other, Key) and self.k == other.k

    def __lt__(self, other):
        _h('key.__lt__')
        if not isinstance(other, Key):
            return NotImplemented
        return self.k < other.k

    def __repr__(self):
        _h('key.__repr__')
        return 'Key(%r)' % (self.k,)

    def __reduce__(self):
        return (Key, (self.k,))


class UKey:
    """Hashable key *without* ordering (forces the engine's fallback paths)."""

    __slots__ = ('k',)

    def __init__(self, k):
        self.k = k

    def __hash__(self):
        _h('ukey.__hash__')
        return hash(('UKey', self.k))

    def __eq__(self, other):
        _h('ukey.__eq__')
        return isinstance(other, UKey) and self.k == other.k

    def __repr__(self):
        return 'UKey(%r)' % (self.k,)

    def __reduce__(self):
        return (UKey, (self.k,))


class Meta:
    """Custom-node metadata with instrumented equality / hash / repr."""

    __slots__ = ('v', 'extra')

    def __init__(self, v, extra=None):
        self.v = v
        self.extra = extra

    def __eq__(self, other):
        _h('meta.__eq__')
        return isinstance(other, Meta) and self.v == other.v

    def __ne__(self, other):
        _h('meta.__ne__')
        return not (isinstance(other, Meta) and self.v == other.v)

    def __hash__(self):
        _h('meta.__hash__')
        return hash(('Meta', self.v))

    def __repr__(self):
        _h('meta.__repr__')
        return 'Meta(%r)' % (self.v,)

    def __reduce__(self):
        _h('meta.__reduce__')
        return (Meta, (self.v,))


NT1 = collections.namedtuple('NT1', ['a', 'b'])
NT2 = collections.namedtuple('NT2', ['x'])
NT0 = collections.namedtuple('NT0', [])


class NT3(NT1):
    """namedtuple subclass with a Python-level constructor (runs during unflatten)."""

    __slots__ = ()

    def __new__(cls, a, b):
        _h('nt.__new__')
        return NT1.__new__(cls, a, b)


class TNT(typing.NamedTuple):
    p: object
    q: object = None


class LiarList(list):
    """A children / leaves container whose __len__ lies (longer or shorter than what iteration yields)."""
    delta = 3

    def __len__(self):
        return max(0, list.__len__(self) + self.delta)


class LiarShort(LiarList):
    delta = -1


class Node:
    """Base of the custom node classes: ``children`` (list) + ``aux``."""

    def __init__(self, children, aux=None):
        self.children = list(children)
        self.aux = aux

    def __repr__(self):
        return '%s(%r, aux=%r)' % (type(self).__name__, self.children, self.aux)


class CA(Node):
    pass


class CB(Node):
    pass


class CC(Node):
    pass


class CD(Node):
    pass


class CE(Node):
    """Registered through register_pytree_node_class in some scenarios."""

    def tree_flatten(self):
        _h('flatten_func')
        return self.children, self.aux, None

    @classmethod
    def tree_unflatten(cls, metadata, children):
        _h('unflatten_func')
        return cls(children, metadata)


CUSTOM_CLASSES = (CA, CB, CC, CD, CE)


# ---------------------------------------------------------------------------------------------
# optree dataclasses: nodes whose flatten / unflatten functions are the LIBRARY's own Python code
# (optree/dataclasses.py).  Registered once, at import, in the global namespace, so that they are
# nodes in every namespace and in every interpreter that imports this module (pickles load).
# ``__post_init__`` runs inside every unflatten-type operation and is a yield / fault point.
def _make_dataclasses():
    import optree
    import optree.dataclasses as odc
    glob = optree.registry.__dict__['__GLOBAL_NAMESPACE']

    @odc.dataclass(namespace=glob)
    class DC1:
        x: object
        y: object
        tag: int = odc.field(default=0, pytree_node=False)

        def __post_init__(self):
            _h('dc.__post_init__')

    @odc.dataclass(namespace=glob)
    class DC2:
        only: object

        def __post_init__(self):
            _h('dc.__post_init__')

    for c in (DC1, DC2):
        c.__module__ = __name__
        c.__qualname__ = c.__name__
    return DC1, DC2


DC1, DC2 = _make_dataclasses()
DC_CLASSES = (DC1, DC2)
NT_CLASSES = (NT1, NT2, NT3, TNT, NT0)

# ---------------------------------------------------------------------------------------------
# flatten / unflatten function families.  ``rid`` is the *registration id* burnt into the metadata
# so that an observation can say which registration served a node (C12, C17 old-or-new).


class Funcs:
    """One registration's callables.  style:
    0: (children list, aux)            1: (children tuple, aux, entries tuple)
    2: (generator children, aux)       3: (children list, Meta(aux), entries list)
    """

    def __init__(self, cls, rid, style=0):
        self.cls = cls
        self.rid = rid
        self.style = style
        self.flatten_calls = 0
        self.unflatten_calls = 0
        self.malform = None
        self.keep = None  # when a list: every children list handed to the engine is appended (C16 mutates it)
        self.reverse = False  # children handed over (and taken back) in REVERSE order: a registration with another convention
        self.keep_entries = None  # when a list: every ENTRIES list handed to the engine is appended (C14 mutates it later)

    def meta(self, aux):
        if self.style == 3:
            return Meta((self.rid, aux))
        if self.style == 5:
            return MetaList([self.rid, aux])  # metadata that is an instance of a list SUBCLASS (with an attribute of its own)
        return (self.rid, aux)

    def flatten(self, node):
        _h('flatten_func')
        self.flatten_calls += 1
        if hasattr(node, 'children'):
            ch = node.children
        elif hasattr(node, '__dataclass_fields__'):
            ch = [getattr(node, name) for name in node.__dataclass_fields__]
        elif isinstance(node, (int, float, str, bytes)):
            ch = []  # a scalar registered as a (childless) custom node
        else:
            ch = list(node)
        if self.reverse:
            ch = list(reversed(ch))
        n = len(ch)
        if not hasattr(node, 'aux'):
            node = _NoAux
        m = self.malform
        if m is not None:
            if m == 'len0':
                return ()
            if m == 'len1':
                return (list(ch),)
            if m == 'len4':
                return (list(ch), self.meta(node.aux), None, None)
            if m == 'noniter':
                return 7, self.meta(node.aux)
            if m == 'entries_len':
                return list(ch), self.meta(node.aux), ('x',) * (n + 1)
            if m == 'entries_short':
                return list(ch) + [Leaf(-1)], self.meta(node.aux), tuple('e%d' % i for i in range(n))
            if m == 'entries_empty':
                return list(ch) + [Leaf(-2)], self.meta(node.aux), ()
            if m == 'entries_short_gen':
                return self._gen(list(ch) + [Leaf(-3)]), self.meta(node.aux), ['g%d' % i for i in range(n)]
            if m == 'liar_long':
                return LiarList(ch), self.meta(node.aux)
            if m == 'liar_short':
                return LiarShort(ch), self.meta(node.aux), None
            if m == 'entries_noniter':
                return list(ch), self.meta(node.aux), 7
            if m == 'entries_empty_list':
                return list(ch) + [Leaf(-4)], self.meta(node.aux), []
            if m == 'entries_nobool':
                # WELL-formed: right length, iterable -- but its truth value cannot be taken (array-likes do this)
                return list(ch), self.meta(node.aux), NoBool('n%d' % i for i in range(n))
            if m == 'entries_empty_ok':
                # WELL-formed: no children, entries an empty (falsy, but not None) tuple
                return [], self.meta(node.aux), ()
            if m == 'not_tuple':
                return None
            if m == 'list3':
                return [list(ch), self.meta(node.aux), None]
        if self.style == 0:
            lst = list(ch)
            if self.keep is not None:
                self.keep.append(lst)
            return lst, self.meta(node.aux)
        if self.style == 1:
            return tuple(ch), self.meta(node.aux), tuple('e%d' % i for i in range(n))
        if self.style == 2:
            return self._gen(ch), self.meta(node.aux)
        if self.style == 6:  # path entries that REPEAT and are not all hashable (a multimap's keys, list-valued keys): only their number is constrained
            return list(ch), self.meta(node.aux), tuple((['u', 0] if i == 0 else 'dup') for i in range(n))
        if self.style == 4:  # the aux object travels in the path ENTRIES, not in the metadata
            return list(ch), (self.rid, None), tuple((i, node.aux) for i in range(n))
        lst = list(ch)
        if self.keep is not None:
            self.keep.append(lst)
        ents = ['k%d' % i for i in range(n)]
        if self.keep_entries is not None:
            self.keep_entries.append(ents)
        return lst, self.meta(node.aux), ents

    @staticmethod
    def _gen(ch):
        for c in list(ch):
            _h('children.__next__')
            yield c

    def unflatten(self, metadata, children):
        _h('unflatten_func')
        self.unflatten_calls += 1
        if isinstance(metadata, Meta):
            rid, aux = metadata.v
        elif self.style == 5:
            if type(metadata) is not MetaList or metadata.tag != 'metalist':
                raise TypeError('the metadata handed to the unflatten function is a %s, the flatten function returned a MetaList' % type(metadata).__name__)
            rid, aux = metadata
        else:
            rid, aux = metadata
        cls = self.cls
        if hasattr(cls, '__dataclass_fields__'):
            return cls(*children)
        if issubclass(cls, tuple):
            children = list(children)
            if hasattr(cls, '_fields'):
                return cls(*children)
            return cls(tuple(children))
        node = cls(list(reversed(list(children))) if self.reverse else children, aux)
        node.built_by = (self.rid, rid)
        return node


class _NoAux:
    aux = None


def rid_of_metadata(metadata):
    if isinstance(metadata, Meta):
        return metadata.v[0]
    return metadata[0]


class NoBool(tuple):
    """A sequence whose truth value cannot be taken (as for numpy arrays): `x or default` / `if x:` raise."""

    __slots__ = ()

    def __bool__(self):
        raise ValueError('the truth value of this sequence is ambiguous')


class MetaList(list):
    """Custom-node metadata that is an instance of a list subclass: a 'defensive copy of lists' must not turn it into a list."""

    def __init__(self, items=()):
        super().__init__(items)
        self.tag = 'metalist'

    def __reduce__(self):
        return (MetaList, (list(self),))


class MetaHook(type):
    """Metaclass whose attribute hooks are scenario callbacks (consulted by the engine while it classifies or
    formats a class during registration)."""

    def __getattr__(cls, name):
        _h('meta.__getattr__')
        raise AttributeError(name)

    def __repr__(cls):
        _h('cls.__repr__')
        return '<class %s>' % cls.__name__


class MetaGAHook(type):
    """Metaclass whose __getattribute__ is a scenario callback for the attributes the engine reads while it CLASSIFIES a tuple
    subclass (namedtuple?) - present attributes too, unlike MetaHook.__getattr__."""

    def __getattribute__(cls, name):
        if name in ('_fields', '_make', '_asdict', 'n_fields', 'n_sequence_fields', 'n_unnamed_fields'):
            _h('meta.__getattribute__')
        return type.__getattribute__(cls, name)


class FalsyMeta(type):
    """Classes that are FALSY objects (a metaclass with __len__ / __bool__, e.g. an 'empty' enum-like or registry-like class):
    `if not cls` is not the same question as `if cls is None`."""

    def __len__(cls):
        return 0

    def __bool__(cls):
        return False


class MetaHashHook(MetaHook):
    """Additionally makes hashing the CLASS a scenario callback: a hook that raises there models a class that is not
    hashable (metaclass with __eq__ and no __hash__) -- the engine keys classes by address, the Python-side table by hash."""

    def __hash__(cls):
        _h('cls.__hash__')
        return type.__hash__(cls)


class TM(tuple, metaclass=MetaHook):
    """tuple subclass with instrumented metaclass: looks like a namedtuple candidate to the engine."""


class PM(metaclass=MetaHook):
    def __init__(self, children=(), aux=None):
        self.children = list(children)
        self.aux = aux


class NTM(NT1):
    """namedtuple subclass (registering it triggers the engine's UserWarning)."""
    __slots__ = ()


def _make_hook_entry():
    from optree.accessor import PyTreeEntry

    class HookEntry(PyTreeEntry):
        """A user-supplied path entry type: the engine constructs one per path step when it builds accessors, so its
        construction is one more engine -> Python callback (yield / fault / re-entry point)."""

        __slots__ = ()

        def __post_init__(self):
            _h('entry.__post_init__')
            PyTreeEntry.__post_init__(self)

        def __call__(self, obj):
            return obj.children[self.entry]

        def codify(self, node=''):
            return '%s.children[%r]' % (node, self.entry)

    HookEntry.__module__ = __name__
    HookEntry.__qualname__ = 'HookEntry'
    return HookEntry


HookEntry = _make_hook_entry()

MALFORMS = ('len1', 'len4', 'noniter', 'entries_len', 'entries_short', 'entries_empty', 'entries_short_gen', 'entries_noniter', 'not_tuple')
STRUCTSEQ_TYPES = (time.struct_time,)


def make_structseq(leaves9):
    return time.struct_time(tuple(leaves9))
