"""Seeded generators for pytrees over the class universe.  All randomness comes from a Tape."""
from __future__ import annotations

import collections
from collections import OrderedDict, defaultdict, deque

from optsim import universe as U

ALL_KINDS = ('tuple', 'list', 'dict', 'odict', 'ddict', 'deque', 'nt', 'structseq', 'custom', 'none', 'dataclass')
KEY_STYLES = ('str', 'int', 'mixed', 'key', 'ukey', 'tuplekey')


class Ctx:
    def __init__(self, kinds=ALL_KINDS, key_styles=KEY_STYLES, custom_classes=U.CUSTOM_CLASSES, leaf_start=0,
                 plain_leaves=False):
        self.kinds = tuple(kinds)
        self.key_styles = tuple(key_styles)
        self.custom_classes = tuple(custom_classes)
        self.n = leaf_start
        self.leaves = []
        self.plain_leaves = plain_leaves
        self.keysets = []  # key lists already used in this tree (re-used in another order to make sibling dicts with equal key SETS)

    def leaf(self):
        self.n += 1
        x = self.n if self.plain_leaves else U.Leaf(self.n)
        self.leaves.append(x)
        return x


def swarm_ctx(t, **kw):
    """Per-run subset of node kinds and key styles (swarm testing)."""
    kinds = [k for k in ALL_KINDS if t.draw(4, 'kind-on') != 0] or ['list', 'dict']
    styles = [s for s in KEY_STYLES if t.draw(3, 'style-on') != 0] or ['str']
    return Ctx(kinds=kinds, key_styles=styles, **kw)


def gen_keys(t, n, ctx):
    if ctx.keysets and t.draw(3, 'reuse-keyset') == 2:
        prev = ctx.keysets[t.draw(len(ctx.keysets), 'which-keyset')]
        if len(prev) >= min(n, 2) or n <= len(prev):
            ks = t.shuffle(prev, 'reorder-keyset')
            if t.draw(2, 'reverse-keyset'):
                ks = list(reversed(ks))
            return ks
    ks = _gen_keys(t, n, ctx)
    if len(ks) >= 2 and len(ctx.keysets) < 4:
        ctx.keysets.append(list(ks))
    return ks


def _gen_keys(t, n, ctx):
    style = t.choice(ctx.key_styles, 'keystyle')
    if style == 'str':
        pool = ['a', 'b', 'c', 'd', 'e', 'f', 'g', 'h']
    elif style == 'int':
        pool = [3, 1, 2, 7, 5, 0, -1, 9]
    elif style == 'mixed':
        pool = [2, 'b', 1, 'a', (0, 1), 3.5, 'c', None]
    elif style == 'key':
        pool = [U.Key(i) for i in (4, 2, 7, 1, 9, 3, 8, 5)]
    elif style == 'ukey':
        pool = [U.UKey(i) for i in (4, 2, 7, 1, 9, 3, 8, 5)]
    else:
        pool = [(1, 'x'), (0, 'y'), (1, 'a'), (2,), (0,), (3, 'q', 1), (1,), ()]
    pool = t.shuffle(pool, 'keyorder')
    return pool[:min(n, len(pool))]


def gen_tree(t, budget, ctx, depth=0):
    """A pytree with at most ~budget nodes.  Value 0 draws give small trees (a single leaf)."""
    if budget <= 1 or depth > 6:
        return ctx.leaf()
    k = t.draw(len(ctx.kinds) + 2, 'kind')
    if k == 0:
        return ctx.leaf()
    if k == len(ctx.kinds) + 1:
        kind = ctx.kinds[t.draw(len(ctx.kinds), 'kind2')]
    else:
        kind = ctx.kinds[k - 1]
    if kind == 'none':
        return None
    n = t.draw(min(4, budget) + 1, 'arity')
    if kind == 'structseq':
        n = 9
    # split the budget
    per = max(1, (budget - 1) // max(n, 1))
    if kind == 'nt':
        cls = t.choice(U.NT_CLASSES, 'ntcls')
        n = len(cls._fields)
    if kind == 'dataclass':
        cls = t.choice(U.DC_CLASSES, 'dccls')
        n = 2 if cls is U.DC1 else 1
    keys = None
    if kind in ('dict', 'odict', 'ddict'):
        keys = gen_keys(t, n, ctx)
        n = len(keys)  # a re-used key set keeps its size so that two dict nodes can have EQUAL key sets in different orders
    children = [gen_tree(t, per if kind != 'structseq' else 1, ctx, depth + 1) for _ in range(n)]
    if kind == 'tuple':
        return tuple(children)
    if kind == 'list':
        return children
    if kind == 'deque':
        ml = t.draw(5, 'maxlen')
        if ml >= 3:
            # bounds outside CPython's small-int cache (two equal bounds are then two int objects after a pickle round trip)
            return deque(children, maxlen=(257, 1000, 2 ** 40)[t.draw(3, 'maxlen-big')] + len(children))
        return deque(children, maxlen=None if ml == 0 else max(len(children), 1) + ml - 1)
    if kind in ('dict', 'odict', 'ddict'):
        items = list(zip(keys, children))
        if kind == 'dict':
            return dict(items)
        if kind == 'odict':
            od = OrderedDict(items)
            if len(items) >= 2 and t.draw(3, 'od-moved') == 2:
                # reordered AFTER construction: the order of an OrderedDict lives in its own linked list, not in the
                # underlying dict (which move_to_end leaves untouched)
                od.move_to_end(items[t.draw(len(items), 'od-which')][0], last=bool(t.draw(2, 'od-last')))
            return od
        fac = t.choice((None, int, list, dict), 'factory')
        return defaultdict(fac, items)
    if kind == 'nt':
        return cls(*children)
    if kind == 'structseq':
        return U.make_structseq(children)
    if kind == 'dataclass':
        return U.DC1(children[0], children[1], tag=t.draw(3, 'dctag')) if cls is U.DC1 else U.DC2(children[0])
    if kind == 'custom':
        cls = t.choice(ctx.custom_classes, 'customcls')
        return cls(children, aux=t.draw(3, 'aux'))
    raise AssertionError(kind)


def describe(tree, depth=0):
    """Address-free rendering for logs / evidence samples."""
    if depth > 8:
        return '...'
    if hasattr(type(tree), '__optree_dataclass_fields__'):
        import dataclasses as _dc
        return '%s(%s)' % (type(tree).__name__, ','.join('%s=%s' % (f.name, describe(getattr(tree, f.name), depth + 1)) for f in _dc.fields(tree)))
    if isinstance(tree, U.Node):
        return '%s(%s|aux=%r)' % (type(tree).__name__, ','.join(describe(c, depth + 1) for c in tree.children), tree.aux)
    if isinstance(tree, tuple) and hasattr(tree, '_fields'):
        return '%s(%s)' % (type(tree).__name__, ','.join(describe(c, depth + 1) for c in tree))
    if type(tree).__name__ == 'struct_time':
        return 'struct_time(%s)' % ','.join(describe(c, depth + 1) for c in tree)
    if isinstance(tree, tuple):
        return '(%s)' % ','.join(describe(c, depth + 1) for c in tree)
    if isinstance(tree, list):
        return '[%s]' % ','.join(describe(c, depth + 1) for c in tree)
    if isinstance(tree, deque):
        return 'deque([%s],maxlen=%r)' % (','.join(describe(c, depth + 1) for c in tree), tree.maxlen)
    if isinstance(tree, defaultdict):
        return 'ddict(%s,{%s})' % (getattr(tree.default_factory, '__name__', None),
                                   ','.join('%s:%s' % (keyrepr(k), describe(v, depth + 1)) for k, v in tree.items()))
    if isinstance(tree, OrderedDict):
        return 'odict({%s})' % ','.join('%s:%s' % (keyrepr(k), describe(v, depth + 1)) for k, v in tree.items())
    if isinstance(tree, dict):
        return '{%s}' % ','.join('%s:%s' % (keyrepr(k), describe(v, depth + 1)) for k, v in tree.items())
    if isinstance(tree, U.Leaf):
        return 'L%d' % tree.i
    if tree is None:
        return 'None'
    return type(tree).__name__ + ':' + (repr(tree) if isinstance(tree, (int, str, float)) else '?')


def keyrepr(k):
    if isinstance(k, (U.Key, U.UKey)):
        return '%s(%r)' % (type(k).__name__, k.k)
    return repr(k)
