"""Build optree's engine from /repo's *current working tree* into a content-addressed overlay.

Flavours:
  hooks  -DOPTREE_VERIF_HOOKS -O1                     (simulation build)
  asan   hooks + -fsanitize=address,undefined -g      (memory-safety oracle)
  plain  no macro                                     (guard-off baseline)

pybind11 is not installed in /venv; torch bundles the headers (see DESIGN.md).
Nothing is written under /tmp; the overlay lives in /verif/.cache/<hash>/<flavour>/optree/.
"""
from __future__ import annotations

import hashlib
import os
import shutil
import subprocess
import sys
import sysconfig
import time
from concurrent.futures import ThreadPoolExecutor

REPO = os.environ.get('VERIF_REPO', '/repo')
VERIF = os.path.dirname(os.path.dirname(os.path.abspath(__file__)))
CACHE = os.environ.get('VERIF_CACHE', os.path.join(VERIF, '.cache'))
PYTHON = '/venv/bin/python'
PYBIND_INC = '/venv/lib/python3.12/site-packages/torch/include'
PY_INC = '/root/.pyenv/versions/3.12.1/include/python3.12'
EXT = '_C.cpython-312-x86_64-linux-gnu.so'

FLAVOURS = {
    'hooks': ['-O1', '-DOPTREE_VERIF_HOOKS'],
    'asan': ['-O1', '-g', '-fno-omit-frame-pointer', '-DOPTREE_VERIF_HOOKS',
             '-fsanitize=address,undefined', '-fno-sanitize=vptr', '-D_GLIBCXX_SANITIZE_VECTOR'],
    'plain': ['-O1'],
}
LINK = {
    'hooks': [],
    'asan': ['-fsanitize=address,undefined'],
    'plain': [],
}
ASAN_PRELOAD = '/usr/lib/gcc/x86_64-linux-gnu/12/libasan.so /usr/lib/x86_64-linux-gnu/libstdc++.so.6'


def _sources():
    out = []
    for root in ('src', 'include'):
        for d, _, files in os.walk(os.path.join(REPO, root)):
            for f in sorted(files):
                if f.endswith(('.cpp', '.h')):
                    out.append(os.path.join(d, f))
    return sorted(out)


def _pyfiles():
    out = []
    for d, dirs, files in os.walk(os.path.join(REPO, 'optree')):
        dirs[:] = sorted(x for x in dirs if x != '__pycache__')
        for f in sorted(files):
            if f.endswith(('.py', '.pyi', '.typed')):
                out.append(os.path.join(d, f))
    return sorted(out)


def tree_hash() -> str:
    h = hashlib.sha256()
    h.update(repr(sorted(FLAVOURS.items())).encode())  # a change of compiler flags is a different build
    for p in _sources() + _pyfiles():
        h.update(os.path.relpath(p, REPO).encode())
        h.update(b'\0')
        with open(p, 'rb') as f:
            h.update(f.read())
        h.update(b'\0')
    return h.hexdigest()[:16]


def cpp_hash() -> str:
    h = hashlib.sha256()
    h.update(repr(sorted(FLAVOURS.items())).encode())
    for p in _sources():
        h.update(os.path.relpath(p, REPO).encode())
        h.update(b'\0')
        with open(p, 'rb') as f:
            h.update(f.read())
        h.update(b'\0')
    return h.hexdigest()[:16]


def _compile_one(args):
    src, obj, flags = args
    cmd = ['g++', '-std=c++20', '-fPIC', '-fvisibility=hidden', '-DSOURCE_PATH_PREFIX_SIZE=%d' % (len(REPO) + 1),
           '-I' + os.path.join(REPO, 'include'), '-isystem', PYBIND_INC, '-isystem', PY_INC,
           *flags, '-c', src, '-o', obj]
    r = subprocess.run(cmd, capture_output=True, text=True)
    return src, r.returncode, r.stderr


def build(flavour: str, quiet: bool = False) -> str:
    """Return the overlay directory (to be put on PYTHONPATH) for this flavour of the current tree."""
    assert flavour in FLAVOURS
    th = tree_hash()
    overlay = os.path.join(CACHE, 'ov-' + th, flavour)
    stamp = os.path.join(overlay, '.ok')
    if os.path.exists(stamp):
        return overlay
    t0 = time.time()
    # the .so depends on C++ only; share it between python-only edits
    ch = cpp_hash()
    sodir = os.path.join(CACHE, 'so-' + ch, flavour)
    so = os.path.join(sodir, EXT)
    if not os.path.exists(so):
        tmp = sodir + '.tmp%d' % os.getpid()
        shutil.rmtree(tmp, ignore_errors=True)
        os.makedirs(tmp)
        srcs = [p for p in _sources() if p.endswith('.cpp')]
        jobs = [(s, os.path.join(tmp, os.path.relpath(s, REPO).replace('/', '_') + '.o'), FLAVOURS[flavour]) for s in srcs]
        with ThreadPoolExecutor(max_workers=16) as ex:
            results = list(ex.map(_compile_one, jobs))
        errs = [(s, e) for s, rc, e in results if rc != 0]
        if errs:
            shutil.rmtree(tmp, ignore_errors=True)
            for s, e in errs:
                sys.stderr.write('COMPILE ERROR %s\n%s\n' % (s, e))
            raise SystemExit(2)
        r = subprocess.run(['g++', '-shared', '-o', os.path.join(tmp, EXT), *LINK[flavour], *[j[1] for j in jobs]],
                           capture_output=True, text=True)
        if r.returncode != 0:
            shutil.rmtree(tmp, ignore_errors=True)
            sys.stderr.write('LINK ERROR\n' + r.stderr)
            raise SystemExit(2)
        for j in jobs:
            os.unlink(j[1])
        os.makedirs(os.path.dirname(sodir), exist_ok=True)
        try:
            os.rename(tmp, sodir)
        except OSError:
            shutil.rmtree(tmp, ignore_errors=True)  # lost a race; the other build is equivalent
    tmp = overlay + '.tmp%d' % os.getpid()
    shutil.rmtree(tmp, ignore_errors=True)
    pkg = os.path.join(tmp, 'optree')
    for p in _pyfiles():
        dst = os.path.join(pkg, os.path.relpath(p, os.path.join(REPO, 'optree')))
        os.makedirs(os.path.dirname(dst), exist_ok=True)
        shutil.copy2(p, dst)
    shutil.copy2(so, os.path.join(pkg, EXT))
    with open(os.path.join(tmp, '.ok'), 'w') as f:
        f.write('%s %s %.1fs\n' % (th, flavour, time.time() - t0))
    os.makedirs(os.path.dirname(overlay), exist_ok=True)
    try:
        os.rename(tmp, overlay)
    except OSError:
        shutil.rmtree(tmp, ignore_errors=True)
    if not quiet:
        sys.stderr.write('[build] %s %s in %.1fs -> %s\n' % (flavour, th, time.time() - t0, overlay))
    _prune()
    return overlay


def _prune(keep: int = 6):
    """Keep the cache small: only the most recent few tree hashes."""
    try:
        for prefix in ('ov-', 'so-'):
            ents = [os.path.join(CACHE, e) for e in os.listdir(CACHE) if e.startswith(prefix)]
            ents.sort(key=lambda p: os.path.getmtime(p), reverse=True)
            for p in ents[keep:]:
                shutil.rmtree(p, ignore_errors=True)
    except OSError:
        pass


def env_for(flavour: str, overlay: str) -> dict:
    env = dict(os.environ)
    env['PYTHONPATH'] = overlay + os.pathsep + VERIF
    env['PYTHONHASHSEED'] = env.get('VERIF_HASHSEED', '0')
    env['PYTHONDONTWRITEBYTECODE'] = '1'
    env['OPTSIM_FLAVOUR'] = flavour
    env['OPTSIM_OVERLAY'] = overlay
    if flavour == 'asan':
        env['LD_PRELOAD'] = ASAN_PRELOAD
        env['PYTHONMALLOC'] = 'malloc'
        env['ASAN_OPTIONS'] = 'detect_leaks=0:abort_on_error=0:exitcode=97:allocator_may_return_null=1:handle_segv=1'
        env['UBSAN_OPTIONS'] = 'halt_on_error=1:exitcode=98:print_stacktrace=1'
    return env


if __name__ == '__main__':
    for fl in sys.argv[1:] or ['hooks']:
        print(build(fl))
