"""Controller: builds /repo's working tree, runs an engine's simulated runs on zygote pools,
aggregates coverage, minimises violations into replay files, consults the known-findings file,
writes evidence and sets the exit status (0 held / 1 violation / 2 harness broken)."""
from __future__ import annotations

import argparse
import importlib
import json
import os
import select
import subprocess
import sys
import time
from collections import Counter

from optsim import build as B
from optsim.tape import derive_seed

VERIF = B.VERIF
ENGINES = {
    'C11': 'checks.c11_restart',
    'C12': 'checks.c12_registry',
    'C13': 'checks.c13_dictmode',
    'C14': 'checks.c14_alias',
    'C15': 'checks.c15_cbfault',
    'C16': 'checks.c16_reentry',
    'C17': 'checks.c17_threads',
    'C18': 'checks.c18_cache',
}


class RemotePool:
    def __init__(self, flavour, module, workers, timeout, hashseed=None):
        self.flavour = flavour
        overlay = B.build(flavour)
        env = B.env_for(flavour, overlay)
        if hashseed is not None:
            env['PYTHONHASHSEED'] = str(hashseed)
        def _limits():
            # ASan inflates C++ stack frames ~10x; scale the main-thread stack limit with it so that only
            # genuinely unbounded recursion overflows (the plain build runs with the default 8 MiB).
            if flavour == 'asan':
                import resource
                soft, hard = resource.getrlimit(resource.RLIMIT_STACK)
                want = 512 << 20
                if hard != resource.RLIM_INFINITY:
                    want = min(want, hard)
                resource.setrlimit(resource.RLIMIT_STACK, (want, hard))

        self.proc = subprocess.Popen([B.PYTHON, '-m', 'optsim.poolserver', module, str(workers), str(timeout)],
                                     stdin=subprocess.PIPE, stdout=subprocess.PIPE, env=env, cwd=VERIF,
                                     preexec_fn=_limits)
        self.buf = b''
        self.outstanding = 0
        self.workers = workers
        self.ready = False
        self._wait_ready()

    def _wait_ready(self):
        line = self._readline(timeout=120)
        if not line or not json.loads(line).get('ready'):
            raise RuntimeError('pool server for %s did not start: %r' % (self.flavour, line))
        self.ready = True

    def _readline(self, timeout):
        deadline = time.monotonic() + timeout
        while b'\n' not in self.buf:
            left = deadline - time.monotonic()
            if left <= 0:
                return None
            r, _, _ = select.select([self.proc.stdout], [], [], min(left, 1.0))
            if r:
                chunk = os.read(self.proc.stdout.fileno(), 1 << 16)
                if not chunk:
                    return None
                self.buf += chunk
        line, self.buf = self.buf.split(b'\n', 1)
        return line

    def submit(self, job):
        self.proc.stdin.write((json.dumps(job) + '\n').encode())
        self.proc.stdin.flush()
        self.outstanding += 1

    def next_result(self, timeout=600):
        line = self._readline(timeout)
        if line is None:
            raise RuntimeError('pool server (%s) stopped answering' % self.flavour)
        self.outstanding -= 1
        return json.loads(line)

    def map_unordered(self, jobs, stop=lambda: False, window=None):
        jobs = iter(jobs)
        window = window or self.workers * 2
        exhausted = False
        while True:
            while not exhausted and self.outstanding < window and not stop():
                try:
                    self.submit(next(jobs))
                except StopIteration:
                    exhausted = True
            if self.outstanding == 0:
                return
            yield self.next_result()

    def run_all(self, jobs):
        """Run a finite list of jobs, return results in job order (jobs get an '_ix')."""
        jobs = [dict(j, _ix=i) for i, j in enumerate(jobs)]
        out = [None] * len(jobs)
        for res in self.map_unordered(jobs):
            out[res['job']['_ix']] = res
        return out

    def close(self):
        try:
            self.proc.stdin.write(b'\n')
            self.proc.stdin.flush()
            self.proc.stdin.close()
        except (OSError, ValueError):
            pass
        try:
            self.proc.wait(timeout=20)
        except subprocess.TimeoutExpired:
            self.proc.kill()


# --------------------------------------------------------------------------------------------------
def load_known():
    path = os.path.join(VERIF, 'known_findings.jsonl')
    known = []
    if os.path.exists(path):
        with open(path) as f:
            for line in f:
                line = line.strip()
                if line and not line.startswith('#'):
                    known.append(json.loads(line))
    return known


def violations_of(eng, out):
    """Normalise one run's outcome into a list of {cls, site, msg} (possibly empty), or raise
    HarnessFailure."""
    res = out.get('result')
    vs = []
    if out.get('harness_error'):
        raise HarnessFailure('engine raised inside the run:\n%s\njob=%r' % (out['harness_error'], out.get('job')))
    if out.get('abnormal'):
        prog = out.get('progress') or {}
        site = prog.get('site', '?') if isinstance(prog, dict) else str(prog)
        kind = out['abnormal']
        if hasattr(eng, 'classify_abnormal'):
            v = eng.classify_abnormal(out)
            if v is None:
                raise HarnessFailure('run ended abnormally (%s) and the engine does not count that as a '
                                     'violation: job=%r stderr=%s' % (kind, out.get('job'), out.get('stderr', '')[-1500:]))
            vs.append(v)
        else:
            vs.append({'cls': kind.split(':')[0] if kind.startswith('exit') else kind, 'site': site,
                       'msg': (out.get('stderr') or '')[-1500:]})
    if res is not None:
        vs.extend(res.get('violations') or [])
    return vs


class HarnessFailure(Exception):
    pass


def sig(v):
    return '%s:%s' % (v['cls'], v['site'])


# --------------------------------------------------------------------------------------------------
def minimise(eng, pool, job, target_sig, budget_s=45.0, max_runs=600):
    """Delta debugging on the choice tape while the same violation signature persists."""
    t0 = time.monotonic()
    runs = [0]

    def test_many(cands):
        """Return index of the first candidate (in order) that still shows target_sig, else None."""
        if not cands:
            return None
        jobs = [dict(job, tape=c, _min=True) for c in cands]
        outs = pool.run_all(jobs)
        runs[0] += len(jobs)
        for i, o in enumerate(outs):
            try:
                vs = violations_of(eng, o)
            except HarnessFailure:
                continue
            if any(sig(v) == target_sig for v in vs):
                return i
        return None

    tape = list(job['tape'])
    # 0. trailing zeros are implied
    while tape and tape[-1] == 0:
        tape.pop()
    if test_many([tape]) is None:
        return job['tape'], runs[0], False  # could not even reproduce from the recorded tape
    # 1. truncate
    lo = 0
    n = 2
    while len(tape) >= 1 and time.monotonic() - t0 < budget_s and runs[0] < max_runs:
        chunk = max(1, len(tape) // n)
        cands = []
        spans = []
        i = 0
        while i < len(tape):
            cands.append(tape[:i] + tape[i + chunk:])
            spans.append((i, i + chunk))
            i += chunk
        # also try zeroing chunks (keeps alignment)
        zc = []
        i = 0
        while i < len(tape):
            if any(tape[i:i + chunk]):
                zc.append(tape[:i] + [0] * len(tape[i:i + chunk]) + tape[i + chunk:])
            i += chunk
        allc = cands + zc
        allc = allc[:64]
        k = test_many(allc)
        if k is not None:
            tape = allc[k]
            while tape and tape[-1] == 0:
                tape.pop()
            n = max(n - 1, 2)
        else:
            if chunk == 1:
                break
            n = min(n * 2, len(tape))
    # 2. lower single values
    changed = True
    while changed and time.monotonic() - t0 < budget_s and runs[0] < max_runs:
        changed = False
        cands = []
        for i, v in enumerate(tape):
            if v > 0:
                for nv in sorted({0, v // 2, v - 1}):
                    if nv < v:
                        cands.append(tape[:i] + [nv] + tape[i + 1:])
        cands = cands[:96]
        k = test_many(cands)
        if k is not None:
            tape = cands[k]
            while tape and tape[-1] == 0:
                tape.pop()
            changed = True
    return tape, runs[0], True


# --------------------------------------------------------------------------------------------------
def check(prop, tier, args):
    t_start = time.monotonic()
    modname = ENGINES[prop]
    eng = importlib.import_module(modname)
    seed = int(os.environ.get('VERIF_SEED', '0') or 0)
    cfg = eng.tier_config(tier)
    budget = float(os.environ.get('VERIF_BUDGET_S') or args.budget or cfg['budget_s'])
    workers = int(args.workers or os.environ.get('VERIF_WORKERS') or 16)
    timeout = cfg.get('run_timeout', 30)
    flavours = cfg.get('flavours', ['hooks'])
    pools = {}
    evidence = {'property_id': prop, 'tier': tier, 'seed': seed, 'level': eng.LEVEL}
    exit_code = 0
    try:
        for fl in flavours:
            pools[fl] = RemotePool(fl, modname, workers, timeout)
        main_fl = flavours[0]
        # ---- determinism sample: same job twice, different zygotes -> identical digests
        det_n = cfg.get('determinism_sample', 12)
        det_jobs = []
        for j in eng.jobs(tier, seed, flavours):
            if j.get('flavour', main_fl) == main_fl:
                det_jobs.append(j)
            if len(det_jobs) >= det_n:
                break
        a = pools[main_fl].run_all(det_jobs)
        b = pools[main_fl].run_all(list(reversed(det_jobs)))
        b = list(reversed(b))
        mism = []
        early_failures = []
        for x, y in zip(a, b):
            if x.get('harness_error') or y.get('harness_error'):
                # decided after the exploration (see Aggregate.add): secondary to a violation, a harness failure otherwise
                he = x if x.get('harness_error') else y
                early_failures.append(HarnessFailure('engine raised inside the run:\n%s\njob=%r' % (he['harness_error'], he.get('job'))))
                continue
            dx = (x.get('result') or {}).get('digest'), x.get('abnormal')
            dy = (y.get('result') or {}).get('digest'), y.get('abnormal')
            if dx != dy:
                # Two executions of one seed that differ are a broken harness — unless one of them ran into a violation:
                # a defect whose manifestation depends on something the simulator measures but cannot control (heap
                # addresses in C18) may show in one execution and not in the other.  That is reported as the violation
                # it is (below, by the exploration phase), not as a harness error.
                vx = (x.get('result') or {}).get('violations') or x.get('abnormal')
                vy = (y.get('result') or {}).get('violations') or y.get('abnormal')
                if vx or vy:
                    continue
                mism.append((x['job'], dx, dy))
        if mism:
            print('HARNESS-ERROR nondeterministic runs: %r' % (mism[:3],))
            return 2
        # ---- main exploration
        agg = Aggregate(eng)
        t_explore = time.monotonic()
        agg.harness_failures.extend((t_explore, e) for e in early_failures[:5])
        deadline = t_explore + budget
        max_runs = int(os.environ.get('VERIF_MAX_RUNS') or args.max_runs or cfg.get('max_runs', 10 ** 9))
        grace_s = min(45.0, budget)
        stop = lambda: (time.monotonic() > deadline or agg.runs >= max_runs or len(agg.violations) >= 24  # noqa: E731
                        or (agg.harness_failures and (agg.violations or time.monotonic() > agg.harness_failures[0][0] + grace_s)))
        by_fl = {fl: [] for fl in flavours}

        def gen_for(fl):
            for j in eng.jobs(tier, seed, flavours):
                if j.get('flavour', main_fl) == fl:
                    yield j

        iters = {fl: pools[fl].map_unordered(gen_for(fl), stop=stop) for fl in flavours}
        live = dict(iters)
        while live:
            for fl in list(live):
                try:
                    out = next(live[fl])
                except StopIteration:
                    del live[fl]
                    continue
                out['flavour'] = fl
                agg.add(out)
        explore_s = time.monotonic() - t_explore
        if agg.harness_failures:
            if not agg.violations:
                raise agg.harness_failures[0][1]
            print('note: %d run(s) also ended in an exception inside harness code on this tree; with violations present they are '
                  'treated as their consequence. First one: %s' % (len(agg.harness_failures), str(agg.harness_failures[0][1])[-600:]))
        # ---- violations -> minimise, replay files, known findings
        known = load_known()
        reported = []
        known_hit = []
        os.makedirs(os.path.join(VERIF, 'replays'), exist_ok=True)
        for s, first in list(agg.violations.items())[:10]:
            out, v = first
            fl = out.get('flavour', main_fl)
            job = dict(out['job'])
            res = out.get('result') or {}
            tape = res.get('tape')
            if tape is None:
                # crashed: regenerate the tape by streaming it
                rec = pools[fl].run_all([dict(job, _stream_tape=True)])[0]
                tape = (rec.get('progress') or {}).get('tape') if isinstance(rec.get('progress'), dict) else None
                if tape is None and rec.get('result'):
                    tape = rec['result'].get('tape')
            minimised = False
            min_runs = 0
            rjob = {k: val for k, val in job.items() if not k.startswith('_')}
            if tape is not None:
                rjob['tape'] = tape
                try:
                    mt, min_runs, ok = minimise(eng, pools[fl], rjob, s, budget_s=cfg.get('minimise_s', 40))
                    if ok:
                        rjob['tape'] = mt
                        minimised = True
                except Exception as e:  # noqa: BLE001
                    print('note: minimisation failed (%s); unminimised tape kept' % (e,))
            rep = {'property': prop, 'engine': modname, 'flavour': fl, 'seed': seed, 'build_hash': B.tree_hash(),
                   'job': rjob, 'expected': {'signature': s, 'cls': v['cls'], 'site': v['site']},
                   'message': v.get('msg', '')[:4000], 'minimised': minimised, 'minimise_runs': min_runs,
                   'original_tape_len': len(tape) if tape is not None else None,
                   'ops': res.get('ops')}
            fname = 'replay-%s-%s.json' % (prop, '%016x' % derive_seed(s))
            path = os.path.join(VERIF, 'replays', fname)
            with open(path, 'w') as f:
                json.dump(rep, f, indent=1)
            k = match_known(known, prop, s)
            if k is not None:
                known_hit.append((k, s, path))
            else:
                reported.append((s, path, v))
        for k, s, path in known_hit:
            print('KNOWN-FINDING: property=%s %s [%s] replay=%s' % (prop, k.get('what', ''), s, path))
        for s, path, v in reported:
            print('VIOLATION property=%s replay=%s' % (prop, path))
            print('  signature: %s' % s)
            print('  %s' % (v.get('msg', '')[:1500].replace('\n', '\n  ')))
        if reported:
            exit_code = 1
        # ---- evidence
        cov = agg.coverage(tier, explore_s)
        cov['known_findings_seen'] = [s for _, s, _ in known_hit]
        cov['determinism_pairs_checked'] = len(det_jobs)
        cov['seeds'] = {'master_seed': seed, 'per_run_seed': 'sha256(master_seed / property / run index)[:8 bytes] -> one random.Random = one choice tape',
                        'seeded_runs': agg.runs, 'seeds_per_hour': cov['runs_per_hour']}
        cov['build'] = {'tree_hash': B.tree_hash(), 'flavours': flavours}
        evidence['coverage'] = cov
        evidence['assumptions'] = list(getattr(eng, 'ASSUMPTIONS', []))
        evidence['wall_s'] = round(time.monotonic() - t_start, 2)
        evidence['violations'] = len(reported)
        os.makedirs(os.path.join(VERIF, 'evidence'), exist_ok=True)
        with open(os.path.join(VERIF, 'evidence', '%s.json' % prop), 'w') as f:
            json.dump(evidence, f, indent=1, sort_keys=True)
        print('%s %s: %d runs, %d distinct non-trivial, %d steps, %.1fs, %d violation signature(s) '
              '(%d known), evidence written' % (prop, tier, agg.runs, len(agg.keys), agg.steps,
                                                time.monotonic() - t_start, len(agg.violations), len(known_hit)))
        if agg.runs == 0:
            print('HARNESS-ERROR no runs executed')
            return 2
        return exit_code
    except HarnessFailure as e:
        print('HARNESS-ERROR %s' % e)
        return 2
    finally:
        for p in pools.values():
            p.close()


def match_known(known, prop, s):
    import fnmatch
    for k in known:
        if k.get('property') == prop and k.get('status', 'known') == 'known' and fnmatch.fnmatchcase(s, k['signature']):
            return k
    return None


class Aggregate:
    def __init__(self, eng):
        self.eng = eng
        self.runs = 0
        self.steps = 0
        self.keys = set()
        self.faults_cfg = Counter()
        self.faults_fired = Counter()
        self.probes = Counter()
        self.violations = {}  # signature -> (out, v) first seen (lowest job index wins for determinism)
        self.samples = []
        self.by_flavour = Counter()
        self.extra = Counter()
        self.harness_failures = []  # (monotonic time, HarnessFailure): decided at the end of the exploration, see check()

    def add(self, out):
        self.runs += 1
        self.by_flavour[out.get('flavour', '?')] += 1
        res = out.get('result')
        try:
            vs = violations_of(self.eng, out)
        except HarnessFailure as e:
            # An exception in harness code inside a run.  On a tree that violates a memory-safety or atomicity property this
            # can be a CONSEQUENCE of the violation (a freed-and-reused list turning up inside the harness's own data), so the
            # exploration goes on for a short grace period: if a violation shows, that is what is reported; if none does, the
            # harness failure stands (exit 2).
            if len(self.harness_failures) < 5:
                self.harness_failures.append((time.monotonic(), e))
            return
        if res:
            self.steps += res.get('steps', 0)
            self.keys.update(res.get('keys') or ())
            self.faults_cfg.update(res.get('faults_cfg') or {})
            self.faults_fired.update(res.get('faults_fired') or {})
            self.probes.update(res.get('probes') or {})
            self.extra.update(res.get('extra') or {})
            if res.get('sample') is not None and len(self.samples) < 5:
                self.samples.append(res['sample'])
        for v in vs:
            s = sig(v)
            cur = self.violations.get(s)
            if cur is None or _job_order(out['job']) < _job_order(cur[0]['job']):
                self.violations[s] = (out, v)

    def coverage(self, tier, explore_s):
        eng = self.eng
        cov = {
            'evaluations': self.runs,
            'distinct_nontrivial': len(self.keys),
            'rule': eng.RULE,
            'samples': self.samples or ['(no sample recorded)'],
            'exhaustive': False,
            'simulated_steps_total': self.steps,
            'simulated_time_note': 'optree has no clock; simulated time = yield-point steps',
            'runs_per_hour': int(self.runs / max(explore_s, 1e-6) * 3600),
            'fault_kinds_configured': dict(self.faults_cfg),
            'fault_kinds_fired': dict(self.faults_fired),
            'reach_probes': dict(sorted(self.probes.items())),
            'runs_by_build_flavour': dict(self.by_flavour),
            'real_vs_stub': getattr(eng, 'REAL_VS_STUB', {}),
            'counters': dict(self.extra),
        }
        zero = [p for p in getattr(eng, 'EXPECTED_PROBES', ()) if not self.probes.get(p)]
        cov['probes_stuck_at_zero'] = zero
        return cov


def _job_order(job):
    return (job.get('i', 1 << 60), json.dumps(job, sort_keys=True))


# --------------------------------------------------------------------------------------------------
def replay(path, args):
    with open(path) as f:
        rep = json.load(f)
    modname = rep['engine']
    eng = importlib.import_module(modname)
    fl = rep.get('flavour', 'hooks')
    cfg = eng.tier_config('quick')
    pool = RemotePool(fl, modname, 1, cfg.get('run_timeout', 30))
    try:
        out = pool.run_all([dict(rep['job'])])[0]
    finally:
        pool.close()
    try:
        vs = violations_of(eng, out)
    except HarnessFailure as e:
        print('HARNESS-ERROR %s' % e)
        return 2
    want = rep['expected']['signature']
    got = [sig(v) for v in vs]
    if want in got:
        v = [v for v in vs if sig(v) == want][0]
        print('REPRODUCED %s' % want)
        print(v.get('msg', '')[:3000])
        if (out.get('result') or {}).get('ops'):
            print('ops: ' + json.dumps(out['result']['ops'])[:3000])
        print('VIOLATION property=%s replay=%s' % (rep['property'], path))
        return 1
    if got:
        print('REPLAY-DIVERGED expected %s, got %r' % (want, got))
        return 2
    print('NOT-REPRODUCED %s (the recorded violation does not occur on the current tree)' % want)
    return 0


def main(argv=None):
    ap = argparse.ArgumentParser()
    sub = ap.add_subparsers(dest='cmd', required=True)
    c = sub.add_parser('check')
    c.add_argument('prop')
    c.add_argument('--tier', default=os.environ.get('VERIF_TIER') or 'quick')
    c.add_argument('--budget', type=float)
    c.add_argument('--workers', type=int)
    c.add_argument('--max-runs', type=int)
    r = sub.add_parser('replay')
    r.add_argument('path')
    b = sub.add_parser('build')
    b.add_argument('flavours', nargs='*')
    s = sub.add_parser('selftest')
    s.add_argument('what')
    s.add_argument('props', nargs='*')
    s.add_argument('--n', type=int, default=300)
    args = ap.parse_args(argv)
    if args.cmd == 'build':
        for fl in args.flavours or ['hooks', 'asan']:
            print(B.build(fl))
        return 0
    if args.cmd == 'check':
        return check(args.prop, args.tier, args)
    if args.cmd == 'replay':
        return replay(args.path, args)
    if args.cmd == 'selftest':
        from optsim import selftest
        return selftest.main(args)
    return 2


if __name__ == '__main__':
    sys.exit(main())
