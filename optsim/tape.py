"""The choice tape: the single source of every decision a simulated run makes.

A run is a pure function of (tape, code).  In *generate* mode every draw comes from one
``random.Random`` seeded from the run seed and is appended to the tape; in *replay* mode draws are
read back from a recorded (possibly shrunk) tape and, once it runs out, every draw returns 0 — the
"first / simplest choice" (keep running the current task, no fault, smallest tree).

Logging never draws and never reads a clock.
"""
from __future__ import annotations

import hashlib
import random


def derive_seed(*parts) -> int:
    h = hashlib.sha256(('/'.join(str(p) for p in parts)).encode()).digest()
    return int.from_bytes(h[:8], 'big')


class Tape:
    __slots__ = ('rng', 'replay', 'pos', 'values', 'labels', 'seed', 'exhausted_draws', 'sink')

    def __init__(self, seed=None, replay=None):
        self.seed = seed
        self.rng = random.Random(seed) if replay is None else None
        self.replay = None if replay is None else list(replay)
        self.pos = 0
        self.values = []
        self.labels = []
        self.exhausted_draws = 0
        self.sink = None  # optional callable() invoked after every draw (crash re-runs stream the tape)

    def draw(self, n: int, label: str = '') -> int:
        """An integer in [0, n)."""
        if n <= 1:
            v = 0
            # still recorded so that tapes stay aligned when n changes between code versions
        if self.replay is None:
            v = self.rng.randrange(n) if n > 1 else 0
        else:
            if self.pos < len(self.replay):
                v = self.replay[self.pos] % n if n > 1 else 0
            else:
                v = 0
                self.exhausted_draws += 1
            self.pos += 1
        self.values.append(v)
        self.labels.append(label)
        if self.sink is not None:
            self.sink()
        return v

    def chance(self, num: int, den: int, label: str = '') -> bool:
        """True with probability num/den.  Value 0 (the shrink target) means False."""
        return self.draw(den, label) >= den - num

    def choice(self, seq, label: str = ''):
        return seq[self.draw(len(seq), label)]

    def weighted(self, pairs, label: str = ''):
        """pairs: [(weight, value)]; value of the first pair is the shrink target."""
        total = sum(w for w, _ in pairs)
        x = self.draw(total, label)
        for w, v in pairs:
            if x < w:
                return v
            x -= w
        return pairs[-1][1]

    def shuffle(self, seq, label: str = ''):
        seq = list(seq)
        for i in range(len(seq) - 1, 0, -1):
            j = self.draw(i + 1, label)
            # value 0 must mean "identity" for shrinking: swap with i - j
            k = i - j
            seq[i], seq[k] = seq[k], seq[i]
        return seq

    def fork(self, label: str):
        """An independent generator whose seed is itself a tape draw (keeps sub-generators from
        perturbing each other's alignment when shrinking)."""
        return Tape(seed=self.draw(1 << 30, label)) if self.replay is None else _Sub(self, label)


class _Sub(Tape):
    """In replay mode a fork is re-derived from the recorded seed value."""

    def __init__(self, parent, label):
        v = parent.draw(1 << 30, label)
        Tape.__init__(self, seed=v)
