"""Simulation kernel: tasks (real threads, one baton), yield points, seeded scheduling policies,
a simulated Python lock, the engine lock seam, and fault-injection points.

Who runs next is decided *only* here, from the choice tape.  Real threads are used because the
engine calls back into Python from C++ frames that cannot be suspended any other way; every thread
but the baton holder is blocked on its own semaphore, so the OS scheduler has nothing to decide.
"""
from __future__ import annotations

import gc
import hashlib
import os
import sys
import threading
from collections import Counter


class Violation(Exception):
    """A property violation found by an oracle.  ``cls`` is the violation class, ``site`` pins the
    specific input / call site (together they form the *signature* used for minimisation, replay
    comparison and the known-findings file)."""

    def __init__(self, cls, site, msg=''):
        Exception.__init__(self, '%s:%s %s' % (cls, site, msg))
        self.cls = cls
        self.site = site
        self.msg = msg

    @property
    def signature(self):
        return '%s:%s' % (self.cls, self.site)


class HarnessError(Exception):
    """The simulator itself misbehaved (never reported as a violation, never as a pass)."""


class EngineWouldBlock(BaseException):
    """Raised by the lock seam in a task that was about to block on an engine lock forever."""


class StepCap(BaseException):
    pass


class Task:
    __slots__ = ('sim', 'tid', 'name', 'fn', 'sem', 'state', 'thread', 'error', 'result', 'blocked_on',
                 'priority', 'steps', 'parked_at', 'ident')

    def __init__(self, sim, tid, name, fn):
        self.sim = sim
        self.tid = tid
        self.name = name
        self.fn = fn
        self.sem = threading.Semaphore(0)
        self.state = 'runnable'
        self.error = None
        self.result = None
        self.blocked_on = None
        self.priority = 0
        self.steps = 0
        self.parked_at = None
        self.ident = None
        self.thread = threading.Thread(target=self._main, name='simtask-%d' % tid, daemon=True)

    def _main(self):
        self.sem.acquire()
        self.ident = threading.get_ident()
        sim = self.sim
        if sim.trace_prefix:
            sys.settrace(sim._tracer)
        try:
            self.result = self.fn(self)
        except BaseException as e:  # noqa: BLE001 - recorded, judged by the oracle
            self.error = e
        finally:
            sys.settrace(None)
            self.state = 'done'
            sim._task_done(self)


class Sim:
    def __init__(self, tape, *, max_steps=20000, trace_prefix=None, log_limit=200000):
        self.tape = tape
        self.tasks = []
        self.cur = None  # Task holding the baton, None = controller (quiescent phase)
        self.steps = 0
        self.max_steps = max_steps
        self.log = hashlib.sha256()
        self.trail = []  # (tid, label) — kept for reports, bounded
        self.trail_limit = log_limit
        self.probes = Counter()
        self.switches = 0
        self.cb_switches = 0  # context switches taken while the switching task was inside an engine callback
        self.main_sem = threading.Semaphore(0)
        self.deadlock = None
        self.engine_blocks = []  # would-block reports from the lock seam
        self.policy = ('sticky', 4)
        self.pct_points = ()
        self.forced_switch = None  # (task index, step index) for single-switch sweeps
        self.script = []  # [[task index, steps], ...] for multi-switch sweeps
        self.script_pos = 0
        self.script_base = None
        self.trace_prefix = trace_prefix
        self.on_point = None  # fault-injection callback(label) (may raise)
        self.gc_rate = 0  # 1/gc_rate chance of an injected collection at a point (0 = never)
        self.faults_fired = Counter()
        self.in_callback = 0
        self.solo_sites = None
        self._cb_depth = {}

    # ------------------------------------------------------------------ logging
    def note(self, *parts):
        """Append to the deterministic event log (never draws, never reads a clock)."""
        s = '|'.join(str(p) for p in parts)
        self.log.update(s.encode())
        self.log.update(b'\n')
        if len(self.trail) < self.trail_limit:
            self.trail.append(s)

    def digest(self):
        return self.log.hexdigest()

    # ------------------------------------------------------------------ tasks
    def spawn(self, name, fn):
        t = Task(self, len(self.tasks), name, fn)
        self.tasks.append(t)
        return t

    def run(self):
        """Run all spawned tasks to completion under the scheduler; returns when all are done or a
        deadlock was detected."""
        if not self.tasks:
            return
        for t in self.tasks:
            t.thread.start()
        self._init_policy()
        first = self._pick(None)
        self.cur = first
        self.note('start', first.tid)
        first.sem.release()
        self.main_sem.acquire()
        self.cur = None
        if self.deadlock is None:
            for t in self.tasks:
                t.thread.join(timeout=5)

    def _init_policy(self):
        kind = self.policy[0]
        if kind == 'pct':
            order = self.tape.shuffle(range(len(self.tasks)), 'pct-prio')
            for prio, idx in enumerate(order):
                self.tasks[idx].priority = len(self.tasks) + prio
        elif kind == 'switch':
            pass

    def _runnable(self):
        return [t for t in self.tasks if t.state == 'runnable']

    def _pick(self, me):
        runnable = self._runnable()
        if not runnable:
            return None
        if len(runnable) == 1:
            return runnable[0]
        kind = self.policy[0]
        if kind == 'pct':
            if self.steps in self.pct_points and me is not None:
                me.priority = -self.steps  # drop below everyone
            return max(runnable, key=lambda t: t.priority)
        if kind == 'switch':
            # run the designated task until its n-th step, then the others to completion (in tid order), then resume
            tidx, at = self.forced_switch
            first = self.tasks[tidx]
            if first.state == 'runnable' and first.steps < at:
                return first
            others = [t for t in runnable if t is not first]
            return others[0] if others else first
        if kind == 'script':
            # forced schedule: segments [task index, number of that task's yield points]; afterwards tid order
            while self.script_pos < len(self.script):
                tidx, n = self.script[self.script_pos]
                t = self.tasks[tidx % len(self.tasks)]
                if self.script_base is None:
                    self.script_base = t.steps
                if t.state == 'runnable' and t.steps - self.script_base < n:
                    return t
                self.script_pos += 1
                self.script_base = None
            return runnable[0]
        # orders: current task first so that value 0 == "do not switch"
        if me is not None and me.state == 'runnable':
            ordered = [me] + [t for t in runnable if t is not me]
        else:
            ordered = runnable
        if kind == 'random':
            return ordered[self.tape.draw(len(ordered), 'sched')]
        if kind == 'sticky':
            den = self.policy[1]
            if me is not None and me.state == 'runnable':
                if self.tape.draw(den, 'stay') != den - 1:
                    return me
                rest = ordered[1:]
                return rest[self.tape.draw(len(rest), 'sched')]
            return ordered[self.tape.draw(len(ordered), 'sched')]
        raise HarnessError('unknown policy %r' % (self.policy,))

    def _switch(self, me, label):
        nxt = self._pick(me)
        if nxt is None:
            # me is blocked and nobody can run
            self.deadlock = {'kind': 'python-lock', 'at': label,
                             'blocked': [(t.tid, t.name, str(t.blocked_on)) for t in self.tasks if t.state == 'blocked']}
            self.note('deadlock', label)
            self.main_sem.release()
            me.sem.acquire()  # parked forever (daemon thread; the run's process exits)
            raise SystemExit
        if nxt is not me:
            self.switches += 1
            if self.in_callback_of(me):
                self.cb_switches += 1
            self.note('sw', me.tid, nxt.tid, label)
            me.parked_at = label
            self.cur = nxt
            nxt.sem.release()
            me.sem.acquire()
            me.parked_at = None

    def in_callback_of(self, task):
        return self._cb_depth.get(task.tid, 0) > 0

    def _task_done(self, me):
        self.note('done', me.tid, type(me.error).__name__ if me.error is not None else '-')
        nxt = self._pick(None)
        if nxt is None:
            if any(t.state == 'blocked' for t in self.tasks):
                self.deadlock = {'kind': 'python-lock', 'at': 'task-exit',
                                 'blocked': [(t.tid, t.name, str(t.blocked_on)) for t in self.tasks if t.state == 'blocked']}
            self.main_sem.release()
            return
        self.cur = nxt
        nxt.sem.release()

    # ------------------------------------------------------------------ yield / fault points
    def point(self, label):
        """A yield point *and* a fault-injection point.  Called by scenario callbacks, the line
        tracer and SimLock.  May raise an injected fault; may switch tasks."""
        self.steps += 1
        self.probes[label] += 1
        me = self.cur
        if me is not None:
            me.steps += 1
        if self.solo_sites is not None:
            self.solo_sites.append(label)
        if self.steps > self.max_steps:
            raise StepCap(label)
        if self.gc_rate and self.tape.draw(self.gc_rate, 'gc?') == self.gc_rate - 1:
            self.faults_fired['gc'] += 1
            self.note('gc', label)
            gc.collect()
        if me is not None and threading.get_ident() == me.ident:
            self.note('pt', me.tid, label)
            self._switch(me, label)
        else:
            self.note('pt', '-', label)
        if self.on_point is not None:
            self.on_point(label)

    class _CB:
        __slots__ = ('sim', 'tid')

        def __init__(self, sim):
            self.sim = sim
            cur = sim.cur
            self.tid = cur.tid if cur is not None else -1

        def __enter__(self):
            d = self.sim._cb_depth
            d[self.tid] = d.get(self.tid, 0) + 1

        def __exit__(self, *exc):
            self.sim._cb_depth[self.tid] -= 1
            return False

    def callback(self):
        """Context manager marking 'inside a Python callback invoked by the engine'."""
        return Sim._CB(self)

    # ------------------------------------------------------------------ line tracer for the optree Python layer
    def _tracer(self, frame, event, arg):
        if event == 'call':
            fn = frame.f_code.co_filename
            if fn.startswith(self.trace_prefix):
                return self._local
        return None

    def _local(self, frame, event, arg):
        if event == 'line':
            fn = frame.f_code.co_filename
            self.point('py:%s:%d' % (fn[len(self.trace_prefix):], frame.f_lineno))
        return self._local

    # ------------------------------------------------------------------ engine lock seam
    def engine_hook(self, site, mode, holders):
        me = self.cur
        holders = [(m, self._tid_of_ident(i)) for m, i in holders]
        rec = {'site': site, 'mode': mode, 'holders': holders, 'task': me.tid if me else -1,
               'owner_parked_at': [self.tasks[h].parked_at if (h is not None and 0 <= h < len(self.tasks)) else None
                                   for _, h in holders]}
        self.engine_blocks.append(rec)
        self.note('would_block', site, mode, holders)
        raise EngineWouldBlock('%s %s held by %r' % (site, mode, holders))

    def _tid_of_ident(self, ident):
        for t in self.tasks:
            if t.ident == ident:
                return t.tid
        return -1 if ident == threading.main_thread().ident else None


class SimLock:
    """Replacement for ``optree.registry.__REGISTRY_LOCK`` (a non-reentrant ``threading.Lock``)."""

    def __init__(self, sim, name='registry'):
        self.sim = sim
        self.name = name
        self.owner = None
        self.acquisitions = 0

    def __str__(self):
        return 'SimLock(%s)' % self.name

    def acquire(self, blocking=True, timeout=-1):
        sim = self.sim
        me = sim.cur
        if me is None or threading.get_ident() != me.ident:
            if self.owner is not None:
                raise HarnessError('SimLock held by %r during a quiescent phase' % (self.owner,))
            self.owner = 'main'
            self.acquisitions += 1
            return True
        sim.point('lock:%s:acquire' % self.name)
        while self.owner is not None:
            if not blocking:
                return False
            me.state = 'blocked'
            me.blocked_on = self
            sim.probes['lock:%s:contended' % self.name] += 1
            sim._switch(me, 'lock:%s:blocked' % self.name)
        self.owner = me
        self.acquisitions += 1
        return True

    def release(self):
        sim = self.sim
        self.owner = None
        for t in sim.tasks:
            if t.state == 'blocked' and t.blocked_on is self:
                t.state = 'runnable'
                t.blocked_on = None
        me = sim.cur
        if me is not None and threading.get_ident() == me.ident:
            sim.point('lock:%s:release' % self.name)

    def locked(self):
        return self.owner is not None

    def __enter__(self):
        self.acquire()
        return self

    def __exit__(self, *exc):
        self.release()
        return False


def choose_policy(sim, tape, est_steps=200):
    """Swarm: draw a scheduling policy for this run."""
    k = tape.draw(8, 'policy')
    if k in (0, 1):
        sim.policy = ('sticky', (2, 5, 20)[tape.draw(3, 'sticky-den')])
    elif k == 2:
        sim.policy = ('random',)
    elif k in (3, 4, 5):
        d = 1 + tape.draw(3, 'pct-d')
        sim.policy = ('pct',)
        sim.pct_points = frozenset(1 + tape.draw(max(est_steps, 2), 'pct-pt') for _ in range(d))
    else:
        sim.policy = ('sticky', 3)
    return sim.policy
