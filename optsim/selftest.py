"""./run selftest determinism [Cxx ...] [--n N]

Proves (on a sample) that one seed is one execution: every job is run (a) twice on a 16-zygote pool
in opposite orders, (b) on a 4-zygote pool, and (c) in a pool whose interpreter was started with a
different PYTHONHASHSEED; all event-log digests must be identical.  Exit 0 / 2."""
from __future__ import annotations

import importlib
import itertools
import json
import os
import sys
import time

from optsim import driver as D


def digests(pool, jobs):
    outs = pool.run_all(jobs)
    res = []
    for o in outs:
        r = o.get('result') or {}
        res.append((r.get('digest'), o.get('abnormal'), bool(o.get('harness_error')), tuple(sorted(D.sig(v) for v in (r.get('violations') or [])))))
    return res


def kernel_selftest():
    """The scheduler must (a) find a lost update in a toy read-modify-write, (b) report a lock-order deadlock on two
    SimLocks, (c) replay a recorded tape to the same trail, (d) honour scripted schedules."""
    from optsim.kernel import Sim, SimLock
    from optsim.tape import Tape
    ok = True

    def lost_update(tape, script=None):
        sim = Sim(tape)
        box = {'v': 0}

        def inc(task):
            v = box['v']
            sim.point('between-read-and-write')
            box['v'] = v + 1
        sim.spawn('a', inc)
        sim.spawn('b', inc)
        if script:
            sim.policy = ('script',)
            sim.script = script
        else:
            sim.policy = ('random',)
        sim.run()
        return box['v'], sim

    found = 0
    tapes = []
    for seed in range(200):
        t = Tape(seed=seed)
        v, sim = lost_update(t)
        if v == 1:
            found += 1
            tapes.append((t.values, sim.digest()))
    print('lost update found in %d of 200 seeds' % found)
    ok &= 20 < found < 200
    vals, dig = tapes[0]
    v2, sim2 = lost_update(Tape(replay=vals))
    print('replay of a failing tape reproduces: value=%d digest equal=%s' % (v2, sim2.digest() == dig))
    ok &= v2 == 1 and sim2.digest() == dig
    v3, _ = lost_update(Tape(seed=0), script=[[0, 1], [1, 100], [0, 100]])
    v4, _ = lost_update(Tape(seed=0), script=[[0, 100], [1, 100]])
    print('scripted schedules: interleaved -> %d (want 1), serial -> %d (want 2)' % (v3, v4))
    ok &= v3 == 1 and v4 == 2

    dead = 0
    for seed in range(100):
        sim = Sim(Tape(seed=seed))
        l1, l2 = SimLock(sim, 'l1'), SimLock(sim, 'l2')

        def ab(task):
            with l1:
                sim.point('holding-l1')
                with l2:
                    pass

        def ba(task):
            with l2:
                sim.point('holding-l2')
                with l1:
                    pass
        sim.spawn('ab', ab)
        sim.spawn('ba', ba)
        sim.policy = ('random',)
        sim.run()
        if sim.deadlock is not None:
            dead += 1
    print('lock-order deadlock reported in %d of 100 seeds' % dead)
    ok &= 5 < dead < 100
    print('kernel selftest %s' % ('OK' if ok else 'FAILED'))
    return 0 if ok else 2


def main(args):
    if args.what == 'kernel':
        return kernel_selftest()
    if args.what != 'determinism':
        print('unknown selftest %r' % args.what)
        return 2
    props = args.props or sorted(D.ENGINES)
    n = args.n
    bad = 0
    report = {}
    for prop in props:
        modname = D.ENGINES[prop]
        eng = importlib.import_module(modname)
        cfg = eng.tier_config('quick')
        jobs = [j for j in itertools.islice((j for j in eng.jobs('quick', 20261003, ['hooks']) if j.get('flavour', 'hooks') == 'hooks'), n)]
        t0 = time.time()
        p16 = D.RemotePool('hooks', modname, 16, cfg.get('run_timeout', 30))
        try:
            a = digests(p16, jobs)
            b = list(reversed(digests(p16, list(reversed(jobs)))))
        finally:
            p16.close()
        p4 = D.RemotePool('hooks', modname, 4, cfg.get('run_timeout', 30))
        try:
            c = digests(p4, jobs)
        finally:
            p4.close()
        ph = D.RemotePool('hooks', modname, 16, cfg.get('run_timeout', 30), hashseed=12345)
        try:
            d = digests(ph, jobs)
        finally:
            ph.close()
        mism = [(jobs[i], a[i], b[i], c[i], d[i]) for i in range(len(jobs)) if not (a[i] == b[i] == c[i] == d[i])]
        herr = sum(1 for x in a if x[2])
        report[prop] = {'jobs': len(jobs), 'mismatches': len(mism), 'harness_errors': herr, 'wall_s': round(time.time() - t0, 1)}
        print('%s: %d jobs x 4 executions (16 workers twice, 4 workers, PYTHONHASHSEED=12345): %d mismatches, %d harness errors, %.1fs' % (
            prop, len(jobs), len(mism), herr, time.time() - t0))
        for m in mism[:3]:
            print('   MISMATCH %r' % (m,))
        bad += len(mism) + herr
    os.makedirs(os.path.join(D.VERIF, 'evidence'), exist_ok=True)
    with open(os.path.join(D.VERIF, 'evidence', 'selftest_determinism.json'), 'w') as f:
        json.dump({'n_per_property': n, 'report': report}, f, indent=1, sort_keys=True)
    return 0 if bad == 0 else 2
