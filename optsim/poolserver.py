"""``python -m optsim.poolserver <engine module> <workers> <timeout>``: started by the controller
once per build flavour (the ASan flavour needs LD_PRELOAD from process start, so it cannot be a
fork of the controller).  Protocol: JSON job per stdin line -> JSON result per stdout line
(unordered).  An empty line / EOF = shut down."""
from __future__ import annotations

import json
import os
import select
import sys

from optsim.pool import Pool


def main():
    module, workers, timeout = sys.argv[1], int(sys.argv[2]), float(sys.argv[3])
    out_fd = os.dup(1)
    os.dup2(2, 1)  # anything printed by engines goes to stderr, never into the protocol stream
    pool = Pool(module, workers=workers, timeout=timeout)
    conns = {c.fileno(): c for c, _ in pool.workers}
    idle = [c for c, _ in pool.workers]
    busy = {}
    queue = []
    buf = b''
    eof = False

    def emit(obj):
        data = (json.dumps(obj) + '\n').encode()
        while data:
            n = os.write(out_fd, data)
            data = data[n:]

    emit({'ready': True, 'workers': workers})
    while True:
        while idle and queue:
            c = idle.pop()
            job = queue.pop(0)
            c.send(job)
            busy[c.fileno()] = job
        if eof and not busy and not queue:
            break
        rl = list(busy.keys())
        if not eof:
            rl.append(0)
        ready, _, _ = select.select(rl, [], [], 1.0)
        for fd in ready:
            if fd == 0:
                chunk = os.read(0, 1 << 16)
                if not chunk:
                    eof = True
                    continue
                buf += chunk
                while b'\n' in buf:
                    line, buf = buf.split(b'\n', 1)
                    if not line.strip():
                        eof = True
                        queue.clear()
                        continue
                    queue.append(json.loads(line))
            else:
                c = conns[fd]
                try:
                    res = c.recv()
                except (EOFError, OSError):
                    res = {'job': busy[fd], 'result': None, 'harness_error': 'zygote died', 'exit': {}, 'timed_out': False}
                    del busy[fd]
                    conns.pop(fd, None)
                    emit(res)
                    continue
                del busy[fd]
                idle.append(c)
                emit(res)
    pool.close()


if __name__ == '__main__':
    main()
