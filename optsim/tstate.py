"""Interpreter thread-state ledger: the per-thread recursion counters of CPython 3.12.

``Py_EnterRecursiveCall`` / ``Py_LeaveRecursiveCall`` pairs in an extension must balance on every exit
path, including the exceptional ones; an unbalanced pair changes nothing an object-level oracle can see
(no reference, no optree state) but eats the calling thread's recursion budget for good.  The counters
are not exposed to Python, so they are read from the ``PyThreadState`` struct with ctypes; the layout
(3.12: prev, next, interp, _status, py_recursion_remaining, py_recursion_limit, c_recursion_remaining)
is validated at import against ``sys.getrecursionlimit()`` and against a known one-frame difference, and
the ledger switches itself off (``counters()`` returns None) if the validation fails.
"""
from __future__ import annotations

import ctypes
import sys

_OFF_PY_REMAINING = 28
_OFF_PY_LIMIT = 32
_OFF_C_REMAINING = 36

_get = ctypes.pythonapi.PyThreadState_Get
_get.restype = ctypes.c_void_p
_get.argtypes = []


def _read():
    ts = _get()
    return (ctypes.c_int.from_address(ts + _OFF_PY_REMAINING).value, ctypes.c_int.from_address(ts + _OFF_PY_LIMIT).value,
            ctypes.c_int.from_address(ts + _OFF_C_REMAINING).value)


def _validate():
    if sys.version_info[:2] != (3, 12):
        return False
    try:
        a = _read()

        def deeper():
            return _read()

        b = deeper()
        return a[1] == sys.getrecursionlimit() == b[1] and a[0] - b[0] == 1 and 0 < a[2] <= 100000 and a[2] == b[2]
    except Exception:  # noqa: BLE001
        return False


ENABLED = _validate()


def counters():
    """(python frames remaining, C recursion remaining) of the calling thread, or None when unsupported.
    Compare two readings taken at the SAME Python call depth."""
    if not ENABLED:
        return None
    r = _read()
    return (r[0], r[2])
