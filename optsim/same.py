"""Structural identity: the comparison every oracle uses.

``same(a, b)`` demands the exact type at every node, dict key *order*, deque maxlen, defaultdict
factory identity, namedtuple class identity and leaf **identity** (``is``) — or, with
``leaf_eq='value'``, equality of ``Leaf.i`` (for comparisons across interpreters).
Returns None when identical, otherwise a short path-qualified description of the first difference.
Never calls an instrumented dunder of the universe (uses ``k`` / ``v`` fields directly).
"""
from __future__ import annotations

from collections import OrderedDict, defaultdict, deque

from optsim import universe as U


def key_ident(k):
    if isinstance(k, (U.Key, U.UKey)):
        return (type(k).__name__, k.k)
    if isinstance(k, tuple):
        return ('tuple',) + tuple(key_ident(x) for x in k)
    return (type(k).__name__, k)


def same(a, b, leaf_eq='is', path='$'):
    ta, tb = type(a), type(b)
    if ta is not tb:
        return '%s: type %s != %s' % (path, ta.__name__, tb.__name__)
    if a is None:
        return None
    tn = ta.__name__
    if tn == 'PyTreeSpec':
        if not (a == b):
            return '%s: treespec %s != %s' % (path, spec_str(a), spec_str(b))
        ra, rb = spec_str(a), spec_str(b)
        if ra != rb:
            return '%s: treespec repr %s != %s' % (path, ra, rb)
        if a.entries() != b.entries():
            return '%s: treespec entries differ' % path
        return None
    if tn == 'PyTreeAccessor' or (ta.__module__ == 'optree.accessor'):
        return None if a == b and repr(a) == repr(b) else '%s: accessor %r != %r' % (path, a, b)
    if hasattr(ta, '__optree_dataclass_fields__'):
        import dataclasses as _dc
        for f in _dc.fields(a):
            d = same(getattr(a, f.name), getattr(b, f.name), leaf_eq, '%s.%s' % (path, f.name))
            if d:
                return d
        return None
    if isinstance(a, U.Node):
        if len(a.children) != len(b.children):
            return '%s: %d != %d children' % (path, len(a.children), len(b.children))
        if a.aux != b.aux:
            return '%s: aux %r != %r' % (path, a.aux, b.aux)
        for i, (x, y) in enumerate(zip(a.children, b.children)):
            d = same(x, y, leaf_eq, '%s.children[%d]' % (path, i))
            if d:
                return d
        return None
    if isinstance(a, (dict,)):
        from optsim.scenario import ditems
        ia, ib = ditems(a), ditems(b)
        ka, kb = [key_ident(k) for k, _ in ia], [key_ident(k) for k, _ in ib]
        if ka != kb:
            return '%s: keys %r != %r' % (path, ka, kb)
        if isinstance(a, defaultdict) and a.default_factory is not b.default_factory:
            return '%s: default_factory differs' % path
        for (k, x), (_, y) in zip(ia, ib):
            d = same(x, y, leaf_eq, '%s[%s]' % (path, key_ident(k)[1:]))
            if d:
                return d
        return None
    if isinstance(a, deque):
        if a.maxlen != b.maxlen:
            return '%s: maxlen %r != %r' % (path, a.maxlen, b.maxlen)
    if isinstance(a, (tuple, list, deque)):
        if len(a) != len(b):
            return '%s: len %d != %d' % (path, len(a), len(b))
        for i, (x, y) in enumerate(zip(a, b)):
            d = same(x, y, leaf_eq, '%s[%d]' % (path, i))
            if d:
                return d
        return None
    if isinstance(a, U.Leaf):
        if leaf_eq == 'is':
            return None if a is b else '%s: leaf L%d is not L%d' % (path, a.i, b.i)
        return None if a.i == b.i else '%s: leaf L%d != L%d' % (path, a.i, b.i)
    if isinstance(a, U.Meta):
        return None if a.v == b.v else '%s: Meta %r != %r' % (path, a.v, b.v)
    if isinstance(a, (U.Key, U.UKey)):
        return None if a.k == b.k else '%s: key %r != %r' % (path, a.k, b.k)
    if (ta.__module__ or '').startswith('optree'):  # PyTreeKind and friends: value objects
        return None if a == b else '%s: %r != %r' % (path, a, b)
    if leaf_eq == 'is' and not isinstance(a, (int, str, float, bool, bytes, type)):
        return None if a is b else '%s: %s objects differ in identity' % (path, ta.__name__)
    try:
        return None if (a is b or a == b) else '%s: %r != %r' % (path, a, b)
    except Exception as e:  # noqa: BLE001
        return '%s: comparison raised %s' % (path, type(e).__name__)


def spec_str(s):
    try:
        return repr(s)
    except BaseException as e:  # noqa: BLE001
        return '<repr raised %s>' % type(e).__name__


def render(x, depth=0):
    """Deterministic, address-free rendering of results (for digests)."""
    from optsim.gen import describe
    if depth > 6:
        return '...'
    tn = type(x).__name__
    if tn == 'PyTreeSpec':
        return 'SPEC<%d,%d>' % (x.num_leaves, x.num_nodes)
    if isinstance(x, BaseException):
        return 'EXC<%s>' % tn
    if isinstance(x, tuple) and not hasattr(x, '_fields') and tn == 'tuple':
        return '(' + ','.join(render(y, depth + 1) for y in x) + ')'
    if isinstance(x, list):
        return '[' + ','.join(render(y, depth + 1) for y in x) + ']'
    return describe(x)
