"""Process model: a pool of *zygotes*; every simulated run executes in a child forked from an idle
zygote, so each run starts from the same pristine process image no matter which worker served it,
in which order, or in which batch.  Crashes, sanitizer aborts and hangs of a run kill only that
child and are classified by the zygote.
"""
from __future__ import annotations

import faulthandler
import gc
import importlib
import json
import os
import select
import signal
import sys
import time
import traceback
from multiprocessing.connection import Connection, wait

SAN_EXIT = {97: 'asan', 98: 'ubsan'}


def _write_all(fd, data: bytes):
    while data:
        n = os.write(fd, data)
        data = data[n:]


class ChildIO:
    """Handed to the engine inside the run's child so it can leave progress markers that survive
    a crash (last marker = what the run was doing when it died)."""

    def __init__(self, fd):
        self.fd = fd

    def progress(self, obj):
        _write_all(self.fd, (json.dumps({'progress': obj}) + '\n').encode())


def run_in_child(fn, job, timeout):
    """Fork; child runs fn(job, io) and reports JSON through a pipe.  Returns the result dict with
    'exit' classification merged in."""
    r, w = os.pipe()
    er, ew = os.pipe()
    sys.stdout.flush()
    sys.stderr.flush()
    pid = os.fork()
    if pid == 0:
        try:
            os.close(r)
            os.close(er)
            os.dup2(ew, 2)
            os.dup2(ew, 1)
            faulthandler.enable(file=2, all_threads=True)
            faulthandler.dump_traceback_later(timeout, exit=True, file=2)
            io = ChildIO(w)
            try:
                out = fn(job, io)
                _S = sys.modules.get('optsim.scenario')
                if _S is not None and getattr(_S, 'CLEANUP_ERRORS', None) and isinstance(out, dict):
                    out.setdefault('violations', [])
                    if not out['violations']:
                        out['violations'].append({'cls': 'cleanup-failed', 'site': 'registry', 'msg': '; '.join(_S.CLEANUP_ERRORS[:3])})
                data = json.dumps({'result': out})
            except BaseException:  # noqa: BLE001
                data = json.dumps({'harness_error': traceback.format_exc()})
            _write_all(w, (data + '\n').encode())
        finally:
            os._exit(0)
    os.close(w)
    os.close(ew)
    bufs = {r: b'', er: b''}
    open_fds = {r, er}
    deadline = time.monotonic() + timeout + 5
    timed_out = False
    while open_fds:
        left = deadline - time.monotonic()
        if left <= 0:
            timed_out = True
            break
        ready, _, _ = select.select(list(open_fds), [], [], min(left, 1.0))
        for fd in ready:
            chunk = os.read(fd, 1 << 16)
            if not chunk:
                open_fds.discard(fd)
            else:
                bufs[fd] += chunk
                if fd == er and len(bufs[er]) > (1 << 20):
                    bufs[er] = bufs[er][-(1 << 19):]
    if timed_out:
        try:
            os.kill(pid, signal.SIGKILL)
        except ProcessLookupError:
            pass
    _, status = os.waitpid(pid, 0)
    os.close(r)
    os.close(er)
    res = None
    progress = None
    harness_error = None
    for line in bufs[r].decode('utf-8', 'replace').splitlines():
        try:
            msg = json.loads(line)
        except ValueError:
            continue
        if 'progress' in msg:
            progress = msg['progress']
        elif 'result' in msg:
            res = msg['result']
        elif 'harness_error' in msg:
            harness_error = msg['harness_error']
    stderr_txt = bufs[er].decode('utf-8', 'replace')
    exit_info = {}
    if os.WIFSIGNALED(status):
        exit_info = {'signal': os.WTERMSIG(status)}
    else:
        exit_info = {'code': os.WEXITSTATUS(status)}
    out = {'job': job, 'result': res, 'progress': progress, 'exit': exit_info, 'timed_out': timed_out,
           'harness_error': harness_error, 'stderr': stderr_txt[-6000:] if (res is None or stderr_txt) else ''}
    # classification of abnormal ends
    if res is None and harness_error is None:
        if timed_out or ('Timeout (' in stderr_txt and exit_info.get('code') == 1):
            out['abnormal'] = 'hang'
        elif 'signal' in exit_info:
            out['abnormal'] = 'crash:' + signal.Signals(exit_info['signal']).name
        elif exit_info.get('code') in SAN_EXIT:
            out['abnormal'] = 'sanitizer:' + SAN_EXIT[exit_info['code']]
        elif 'AddressSanitizer' in stderr_txt:
            out['abnormal'] = 'sanitizer:asan'
        elif 'runtime error:' in stderr_txt:
            out['abnormal'] = 'sanitizer:ubsan'
        else:
            out['abnormal'] = 'exit:%s' % exit_info.get('code')
    elif res is not None and 'runtime error:' in stderr_txt:
        out['abnormal'] = 'sanitizer:ubsan'
    return out


def _zygote_main(conn: Connection, module: str, timeout: float):
    mod = importlib.import_module(module)
    broken = None
    warm_failed = None
    if hasattr(mod, 'warmup'):
        # Rehearse the warm-up in a throw-away child first: if the tree under test crashes or hangs already there, every
        # job of this zygote is answered with that abnormal end (a violation for the engine to classify), instead of the
        # zygote dying and the harness looking broken.
        def rehearse(job, io):
            io.progress({'site': 'warmup'})
            found = mod.warmup()  # an engine may return violations its warm-up histories ran into
            return {'violations': list(found or []), 'digest': 'warmup', 'steps': 0, 'keys': []}

        probe = run_in_child(rehearse, {'warmup': True}, max(timeout, 120))
        if probe.get('abnormal') or (probe.get('result') or {}).get('violations'):
            broken = probe
        elif probe.get('harness_error'):
            # An exception in harness code during the warm-up.  On the unchanged tree that is a harness defect; on a tree
            # that violates the property it can be a consequence (a warm-up history tripping over state an earlier one
            # left behind).  Report it once, then serve jobs from an un-warmed process: the driver keeps exploring for a
            # grace period and reports a violation if one shows, the harness failure otherwise.
            warm_failed = probe
        else:
            mod.warmup()
    gc.collect()
    gc.freeze()
    gc.disable()
    fn = mod.run_job
    while True:
        try:
            job = conn.recv()
        except EOFError:
            break
        if job is None:
            break
        t = job.pop('_timeout', None) or timeout
        if broken is not None:
            conn.send(dict(broken, job=job, progress={'site': 'warmup'}))
            continue
        if warm_failed is not None:
            conn.send(dict(warm_failed, job=job, progress={'site': 'warmup'}))
            warm_failed = None
            continue
        try:
            out = run_in_child(fn, job, t)
        except BaseException:  # noqa: BLE001
            out = {'job': job, 'result': None, 'harness_error': traceback.format_exc(), 'exit': {}, 'timed_out': False}
        conn.send(out)
    os._exit(0)


class Pool:
    """W zygotes.  ``map_unordered(jobs)`` yields results as they complete; job order does not
    influence any run (pristine fork per run)."""

    def __init__(self, module: str, workers: int = 16, timeout: float = 60.0):
        self.module = module
        self.workers = []
        import multiprocessing as mp
        for _ in range(workers):
            a, b = mp.Pipe()
            sys.stdout.flush()
            sys.stderr.flush()
            pid = os.fork()
            if pid == 0:
                a.close()
                for (c, _p) in self.workers:
                    c.close()
                try:
                    _zygote_main(b, module, timeout)
                finally:
                    os._exit(0)
            b.close()
            self.workers.append((a, pid))

    def map_unordered(self, jobs, stop=lambda: False):
        jobs = iter(jobs)
        idle = [c for c, _ in self.workers]
        busy = {}
        exhausted = False
        while True:
            while idle and not exhausted and not stop():
                try:
                    job = next(jobs)
                except StopIteration:
                    exhausted = True
                    break
                c = idle.pop()
                c.send(job)
                busy[c] = job
            if not busy:
                if exhausted or stop():
                    return
                continue
            for c in wait(list(busy), timeout=1.0):
                try:
                    out = c.recv()
                except EOFError:
                    out = {'job': busy[c], 'result': None, 'harness_error': 'zygote died', 'exit': {}, 'timed_out': False}
                    del busy[c]
                    yield out
                    continue
                del busy[c]
                idle.append(c)
                yield out

    def run_one(self, job):
        for out in self.map_unordered([job]):
            return out

    def close(self):
        for c, pid in self.workers:
            try:
                c.send(None)
            except (OSError, BrokenPipeError):
                pass
        for c, pid in self.workers:
            try:
                os.waitpid(pid, 0)
            except ChildProcessError:
                pass
            c.close()
        self.workers = []
