"""Address-free observation of a treespec, shared by the dumping node and the loading node (C11)."""
from __future__ import annotations

from optsim import gen
from optsim import universe as U
from optsim.scenario import walk


def observe(spec, with_hash=True):
    sent = [U.Leaf(50000 + i) for i in range(spec.num_leaves)]
    try:
        rebuilt = spec.unflatten(sent)
        un = gen.describe(rebuilt)
        bb = repr([getattr(x, 'built_by', None) for x in walk(rebuilt) if isinstance(x, U.Node)])
    except Exception as e:  # noqa: BLE001
        un = 'unflatten raised %s' % type(e).__name__
        bb = ''
    ch = spec.children()
    o = {
        'repr': repr(spec), 'paths': repr(spec.paths()), 'accessors': repr(spec.accessors()), 'entries': repr(spec.entries()),
        'children': [observe(c, with_hash=False)['repr'] for c in ch],
        'grandchildren': [[repr(g) for g in c.children()] for c in ch],
        'child_entries': [repr(c.entries()) for c in ch],
        'one_level': repr(spec.one_level()),
        'counts': [spec.num_leaves, spec.num_nodes, spec.num_children], 'ns': spec.namespace, 'nil': spec.none_is_leaf,
        'kind': int(spec.kind), 'type': getattr(spec.type, '__name__', None), 'unflatten': un, 'built_by': bb,
    }
    return o


def diff(a, b):
    for k in a:
        if a[k] != b.get(k):
            return '%s: %r != %r' % (k, a[k], b.get(k))
    return None
