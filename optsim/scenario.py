"""Scenario objects (trees, treespecs, callbacks) and the catalogue of optree operations that the
engines drive.  Everything is prepared in a *quiescent* phase with ``universe.HOOK = None``; the
operations themselves are closures over the prepared arguments so that the same operation can be
re-executed any number of times from the same state (fault enumeration, solo references)."""
from __future__ import annotations

import copy
import pickle
from collections import OrderedDict, defaultdict, deque

import optree

from optsim import gen
from optsim import universe as U

GLOBAL = optree.registry.__dict__['__GLOBAL_NAMESPACE']


# ------------------------------------------------------------------ Python-level structure helpers
def ditems(x):
    """(key, value) pairs of a dict-like in ITS OWN order -- for an OrderedDict the order of its linked list (which
    move_to_end changes while the underlying dict stays put) -- without firing an instrumented key dunder into a hook."""
    if isinstance(x, OrderedDict):
        hook, U.HOOK = U.HOOK, None
        try:
            return list(OrderedDict.items(x))
        finally:
            U.HOOK = hook
    return list(dict.items(x))


def dkeys(x):
    return [k for k, _ in ditems(x)]


def dvalues(x):
    return [v for _, v in ditems(x)]


def py_children(x):
    """Children by Python structure (independent of optree) or None for non-containers."""
    if isinstance(x, U.Node):
        return x.children
    if hasattr(type(x), '__optree_dataclass_fields__'):
        return [getattr(x, n, None) for n in type(x).__optree_dataclass_fields__[0]]
    if isinstance(x, dict):
        return dvalues(x)
    if isinstance(x, (tuple, list, deque)):
        return list(x)
    return None


def walk(x, out=None):
    """All objects reachable through containers (pre-order), containers included."""
    if out is None:
        out = []
    out.append(x)
    ch = py_children(x)
    if ch is not None:
        for c in ch:
            walk(c, out)
    return out


def _od_from(items):
    hook, U.HOOK = U.HOOK, None
    try:
        return OrderedDict(items)
    finally:
        U.HOOK = hook


def clone(x):
    """Structural copy sharing leaves, keys and aux (for before/after comparisons)."""
    if isinstance(x, U.Node):
        return type(x)([clone(c) for c in x.children], x.aux)
    if hasattr(type(x), '__optree_dataclass_fields__'):
        import dataclasses as _dc
        new = object.__new__(type(x))  # not through __init__ / __post_init__ (an instrumented callback)
        for f in _dc.fields(x):
            v = getattr(x, f.name)
            object.__setattr__(new, f.name, clone(v) if f.name in type(x).__optree_dataclass_fields__[0] else v)
        return new
    if isinstance(x, defaultdict):
        return defaultdict(x.default_factory, [(k, clone(v)) for k, v in ditems(x)])
    if isinstance(x, OrderedDict):
        return _od_from([(k, clone(v)) for k, v in ditems(x)])
    if isinstance(x, dict):
        return {k: clone(v) for k, v in ditems(x)}
    if isinstance(x, deque):
        return deque([clone(c) for c in x], maxlen=x.maxlen)
    if isinstance(x, list):
        return [clone(c) for c in x]
    if isinstance(x, tuple):
        if hasattr(x, '_fields'):
            return tuple.__new__(type(x), [clone(c) for c in x])
        if type(x) is tuple:
            return tuple(clone(c) for c in x)
        return type(x)(tuple(clone(c) for c in x))  # struct sequence
    return x


CLEANUP_ERRORS = []


class Registry:
    """The registrations a scenario makes (and must undo)."""

    def __init__(self):
        self.live = []  # (cls, namespace, Funcs)
        self.next_rid = 1

    def register(self, cls, namespace, style=0, path_entry_type=None):
        f = U.Funcs(cls, self.next_rid, style)
        self.next_rid += 1
        kw = {}
        if path_entry_type is not None:
            kw['path_entry_type'] = path_entry_type
        optree.register_pytree_node(cls, f.flatten, f.unflatten, namespace=namespace, **kw)
        self.live.append((cls, namespace, f))
        return f

    def unregister_all(self):
        # undoing the scenario's own registrations must succeed; if it does not, the registry lost or changed one of them behind
        # the scenario's back -- recorded (the run reports it as a violation, see pool.run_in_child), never raised from cleanup
        for cls, ns, _ in reversed(self.live):
            try:
                optree.unregister_pytree_node(cls, namespace=ns)
            except Exception as e:  # noqa: BLE001
                CLEANUP_ERRORS.append('unregistering %s from %r, which this scenario registered there, raised %s: %s' % (
                    getattr(cls, '__name__', cls), '<global>' if ns is GLOBAL else ns, type(e).__name__, e))
        self.live = []


class _Acc:
    __slots__ = ('items',)

    def __init__(self, items=()):
        self.items = items

    def __add__(self, x):
        U._h('map_fn')
        return _Acc(self.items + (x,))


class _LeavesIt:
    # module-level on purpose: a class created per call is cyclic garbage that keeps its closure (the leaves) alive until
    # the next collection, which a refcount ledger would see as a retained reference
    __slots__ = ('src', 'i')

    def __init__(self, src):
        self.src = src
        self.i = 0

    def __iter__(self):
        return self

    def __next__(self):
        U._h('leaves.__next__')
        if self.i >= len(self.src):
            raise StopIteration
        self.i += 1
        return self.src[self.i - 1]


class Scn:
    """One scenario: registrations + arguments for the operation catalogue."""

    def __init__(self, t, *, budget=None, ns=None, registry=None, kinds=None):
        self.t = t
        self.reg = registry or Registry()
        self.ns = ns if ns is not None else t.choice(('ns', 'ns', ''), 'scn-ns')
        self.none_is_leaf = bool(t.draw(2, 'nil'))
        n_custom = t.draw(len(U.CUSTOM_CLASSES), 'n-custom')
        self.custom = []
        if registry is None:
            for cls in U.CUSTOM_CLASSES[:n_custom + 1]:
                # the global namespace must be passed as the sentinel, '' is rejected by the API
                self.reg.register(cls, self.ns if self.ns else GLOBAL, style=t.draw(4, 'style'),
                                  path_entry_type=t.choice((None, None, U.HookEntry), 'entry-type'))
                self.custom.append(cls)
        ctx = gen.swarm_ctx(t) if kinds is None else gen.Ctx(kinds=kinds)
        self.ctx = ctx
        budget = budget if budget is not None else 2 + t.draw(24, 'budget')
        self.tree = gen.gen_tree(t, budget, ctx)
        U.HOOK = None
        kw = self.kw = {'none_is_leaf': self.none_is_leaf, 'namespace': self.ns}
        self.leaves, self.spec = optree.tree_flatten(self.tree, **kw)
        # a structurally identical tree with fresh leaves
        self.leaves2 = [ctx.leaf() for _ in self.leaves]
        self.tree2 = optree.tree_unflatten(self.spec, self.leaves2)
        # predicate: stop at a tape-chosen set of internal nodes (a function of the object only)
        nodes = [x for x in walk(self.tree) if py_children(x) is not None]
        self.stop_ids = {id(x) for x in nodes if t.draw(5, 'stop') == 4}
        stop_ids = self.stop_ids

        def pred(x):
            U._h('is_leaf')
            return id(x) in stop_ids

        self.pred = pred
        # a prefix tree of ``tree``: flatten stopping at the chosen nodes, refill with fresh leaves
        pl, pspec = optree.tree_flatten(self.tree, is_leaf=lambda x: id(x) in stop_ids, **kw)
        self.prefix_spec = pspec
        self.prefix = optree.tree_unflatten(pspec, [ctx.leaf() for _ in pl])
        # a different tree (for mismatching operands)
        self.other = gen.gen_tree(t, 1 + t.draw(8, 'other-budget'), ctx)
        self.other_spec = optree.tree_structure(self.other, **kw)

        def fmap(*xs):
            U._h('map_fn')
            return xs[0]

        self.fmap = fmap

        def fpath(p, *xs):
            U._h('map_fn')
            return xs[0]

        self.fpath = fpath

        def f_node(children):
            U._h('f_node')
            return list(children)

        def f_node3(tp, meta, children):
            U._h('f_node')
            return (tp.__name__, len(children))

        def f_leaf(x):
            U._h('f_leaf')
            return x

        self.f_node, self.f_node3, self.f_leaf = f_node, f_node3, f_leaf

        def f_tnode(spec):
            U._h('f_node')
            return spec

        def f_tleaf(spec):
            U._h('f_leaf')
            return spec

        self.f_tnode, self.f_tleaf = f_tnode, f_tleaf

        def f_pair(x):
            U._h('map_fn')
            return (x, x)

        self.f_pair = f_pair

        def f_reduce(a, b):
            U._h('map_fn')
            return a

        self.f_reduce = f_reduce

    def leaves_iter(self):
        """An instrumented iterable of leaves (engine calls __next__)."""
        return _LeavesIt(list(self.leaves))

    def tracked(self):
        """Objects whose reference counts the ledger follows."""
        objs = []
        seen = set()
        for root in (self.tree, self.tree2, self.prefix, self.other):
            for x in walk(root):
                if id(x) not in seen and x is not None and not isinstance(x, (int, str)):
                    seen.add(id(x))
                    objs.append(x)
            for x in walk(root):
                if isinstance(x, dict):
                    for k in dkeys(x):
                        if id(k) not in seen and isinstance(k, (U.Key, U.UKey)):
                            seen.add(id(k))
                            objs.append(k)
        objs.extend([self.spec, self.prefix_spec, self.other_spec])
        # the payload objects a treespec owns (key lists, custom metadata, entries) as reported by its GC traversal:
        # a reference to them parked in some engine-side buffer would otherwise be invisible
        import gc as _gc
        for sp in (self.spec, self.prefix_spec, self.other_spec):
            for x in _gc.get_referents(sp):
                if id(x) not in seen and not isinstance(x, type):
                    seen.add(id(x))
                    objs.append(x)
        for _, _, f in self.reg.live:
            objs.append(f)
        return objs

    def close(self):
        U.HOOK = None
        self.reg.unregister_all()


# ------------------------------------------------------------------ the catalogue
def _ops():
    o = {}

    def op(name, **meta):
        def deco(fn):
            fn.meta = meta
            o[name] = fn
            return fn
        return deco

    @op('flatten')
    def _(s):
        return optree.tree_flatten(s.tree, is_leaf=s.pred, **s.kw)

    @op('flatten_nopred')
    def _(s):
        return optree.tree_flatten(s.tree, **s.kw)

    @op('flatten_with_path')
    def _(s):
        return optree.tree_flatten_with_path(s.tree, is_leaf=s.pred, **s.kw)

    @op('flatten_with_accessor')
    def _(s):
        return optree.tree_flatten_with_accessor(s.tree, is_leaf=s.pred, **s.kw)

    @op('leaves')
    def _(s):
        return optree.tree_leaves(s.tree, is_leaf=s.pred, **s.kw)

    @op('structure')
    def _(s):
        return optree.tree_structure(s.tree, is_leaf=s.pred, **s.kw)

    @op('paths')
    def _(s):
        return optree.tree_paths(s.tree, is_leaf=s.pred, **s.kw)

    @op('accessors')
    def _(s):
        return optree.tree_accessors(s.tree, is_leaf=s.pred, **s.kw)

    @op('iter')
    def _(s):
        return list(optree.tree_iter(s.tree, is_leaf=s.pred, **s.kw))

    @op('is_leaf')
    def _(s):
        return optree.tree_is_leaf(s.tree, is_leaf=s.pred, **s.kw)

    @op('all_leaves')
    def _(s):
        return optree.all_leaves(list(s.leaves) + [s.tree], is_leaf=s.pred, **s.kw)

    @op('map')
    def _(s):
        return optree.tree_map(s.fmap, s.tree, s.tree2, is_leaf=s.pred, **s.kw)

    @op('map_', inplace=True)
    def _(s):
        return optree.tree_map_(s.fmap, s.tree, s.tree2, is_leaf=s.pred, **s.kw)

    @op('map_with_path')
    def _(s):
        return optree.tree_map_with_path(s.fpath, s.tree, s.tree2, is_leaf=s.pred, **s.kw)

    @op('map_with_path_', inplace=True)
    def _(s):
        return optree.tree_map_with_path_(s.fpath, s.tree, is_leaf=s.pred, **s.kw)

    @op('map_with_accessor')
    def _(s):
        return optree.tree_map_with_accessor(s.fpath, s.tree, s.tree2, is_leaf=s.pred, **s.kw)

    @op('map_with_accessor_', inplace=True)
    def _(s):
        return optree.tree_map_with_accessor_(s.fpath, s.tree, is_leaf=s.pred, **s.kw)

    @op('replace_nones')
    def _(s):
        return optree.tree_replace_nones(0, s.tree, namespace=s.ns)

    @op('transpose_map')
    def _(s):
        return optree.tree_transpose_map(s.f_pair, s.tree, is_leaf=s.pred, **s.kw)

    @op('transpose_map_with_path')
    def _(s):
        return optree.tree_transpose_map_with_path(lambda p, x: s.f_pair(x), s.tree, is_leaf=s.pred, **s.kw)

    @op('transpose')
    def _(s):
        inner = optree.tree_structure((0, 0))
        outer = optree.tree_structure(s.tree, is_leaf=s.pred, **s.kw)
        tr = optree.tree_map(lambda x: (x, x), s.tree, is_leaf=s.pred, **s.kw)
        return optree.tree_transpose(outer, optree.tree_structure((0, 0), **s.kw), tr)

    @op('broadcast_prefix')
    def _(s):
        return optree.tree_broadcast_prefix(s.prefix, s.tree, **s.kw)

    @op('broadcast_prefix_flat')
    def _(s):
        return optree.broadcast_prefix(s.prefix, s.tree, **s.kw)

    @op('broadcast_common')
    def _(s):
        return optree.tree_broadcast_common(s.prefix, s.tree, **s.kw)

    @op('broadcast_common_flat')
    def _(s):
        return optree.broadcast_common(s.prefix, s.tree2, **s.kw)

    @op('broadcast_map')
    def _(s):
        return optree.tree_broadcast_map(s.fmap, s.prefix, s.tree, **s.kw)

    @op('broadcast_map_with_path')
    def _(s):
        return optree.tree_broadcast_map_with_path(s.fpath, s.prefix, s.tree, **s.kw)

    @op('broadcast_common_mismatch')
    def _(s):
        return optree.tree_broadcast_common(s.other, s.tree, **s.kw)

    @op('reduce')
    def _(s):
        return optree.tree_reduce(s.f_reduce, s.tree, is_leaf=s.pred, **s.kw)

    @op('reduce_init')
    def _(s):
        return optree.tree_reduce(s.f_reduce, s.tree, None, is_leaf=s.pred, **s.kw)

    @op('all')
    def _(s):
        return optree.tree_all(s.tree, is_leaf=s.pred, **s.kw)

    @op('unflatten')
    def _(s):
        return optree.tree_unflatten(s.spec, s.leaves_iter())

    @op('unflatten_short')
    def _(s):
        return optree.tree_unflatten(s.spec, list(s.leaves)[:-1])

    @op('unflatten_long')
    def _(s):
        return optree.tree_unflatten(s.spec, list(s.leaves) + [None])

    @op('traverse')
    def _(s):
        return s.spec.traverse(s.leaves_iter(), s.f_node, s.f_leaf)

    @op('walk')
    def _(s):
        return s.spec.walk(s.leaves_iter(), s.f_node3, s.f_leaf)

    @op('transform')
    def _(s):
        return optree.treespec_transform(s.spec, s.f_tnode, s.f_tleaf)

    @op('flatten_up_to')
    def _(s):
        return s.prefix_spec.flatten_up_to(s.tree)

    @op('flatten_up_to_mismatch')
    def _(s):
        return s.other_spec.flatten_up_to(s.tree)

    @op('is_prefix')
    def _(s):
        return (s.prefix_spec.is_prefix(s.spec), s.spec.is_prefix(s.prefix_spec, strict=True),
                s.prefix_spec <= s.spec, s.prefix_spec < s.spec, s.spec >= s.other_spec, s.spec.is_suffix(s.prefix_spec))

    @op('eq')
    def _(s):
        again = optree.tree_structure(s.tree2, **s.kw)
        return (s.spec == again, s.spec != again, s.spec == s.other_spec, s.spec != s.prefix_spec)

    @op('hash')
    def _(s):
        # the values themselves (stable within one process) so that a recursion-guard placeholder (0) is visible
        return (hash(s.spec), hash(s.prefix_spec), hash(s.spec) == hash(s.spec), hash(s.other_spec))

    @op('repr')
    def _(s):
        return (repr(s.spec), str(s.prefix_spec))

    @op('pickle')
    def _(s):
        return pickle.loads(pickle.dumps(s.spec))

    @op('copy')
    def _(s):
        return (copy.copy(s.spec), copy.deepcopy(s.prefix_spec))

    @op('from_collection')
    def _(s):
        ch = s.spec.children()
        return (optree.treespec_from_collection([s.spec, {'a': s.prefix_spec, 'b': ch}], **s.kw),
                optree.treespec_tuple(ch, **s.kw), optree.treespec_list([s.spec, s.prefix_spec], **s.kw))

    @op('from_collection_dict')
    def _(s):
        top = s.tree
        if isinstance(top, dict):
            col = type(top)(top) if not isinstance(top, defaultdict) else defaultdict(top.default_factory, top)
            for k in list(dict.keys(col)):
                dict.__setitem__(col, k, s.other_spec)
            return optree.treespec_from_collection(col, **s.kw)
        return optree.treespec_dict({U.Key(2): s.spec, U.Key(1): s.prefix_spec}, **s.kw)

    @op('prefix_errors')
    def _(s):
        return [type(e(('x',))).__name__ for e in optree.prefix_errors(s.prefix, s.tree, **s.kw)]

    @op('prefix_errors_mismatch')
    def _(s):
        return [type(e(('x',))).__name__ for e in optree.prefix_errors(s.other, s.tree, **s.kw)]

    @op('one_level')
    def _(s):
        try:
            r = optree.tree_flatten_one_level(s.tree, **s.kw)
        except ValueError as e:  # a leaf at the top is documented to raise
            if 'leaf' in str(e).lower():
                return 'leaf'
            raise
        ch, meta, entries, unflatten = r[:4]
        return (list(ch), entries, unflatten(meta, ch))

    @op('inspect')
    def _(s):
        sp = s.spec
        return (sp.paths(), sp.accessors(), sp.entries(), sp.children(), sp.one_level(), sp.num_leaves, sp.num_nodes,
                sp.num_children, sp.kind, sp.type, sp.is_leaf(), sp.is_one_level(),
                [sp.child(i) for i in range(sp.num_children)], [sp.entry(i) for i in range(sp.num_children)])

    @op('registry_get')
    def _(s):
        # the Python-visible registry while other threads register / unregister unrelated types in other namespaces
        table = optree.register_pytree_node.get(namespace=s.ns if s.ns else GLOBAL)
        mine = sorted(t.__name__ for t in table if t in U.CUSTOM_CLASSES)
        one = [getattr(optree.register_pytree_node.get(c, namespace=s.ns if s.ns else GLOBAL), 'namespace', None) for c in U.CUSTOM_CLASSES]
        return (mine, one, sorted(k.__name__ for k in table if k in (list, dict, tuple)))

    @op('transpose_map_with_accessor')
    def _(s):
        return optree.tree_transpose_map_with_accessor(lambda a, x: s.f_pair(x), s.tree, is_leaf=s.pred, **s.kw)

    @op('broadcast_map_with_accessor')
    def _(s):
        return optree.tree_broadcast_map_with_accessor(s.fpath, s.prefix, s.tree, **s.kw)

    @op('reductions')
    def _(s):
        def key(x):
            U._h('map_fn')
            return 0

        return (optree.tree_sum(s.tree, _Acc(), is_leaf=s.pred, **s.kw).items,
                optree.tree_max(s.tree, default=None, key=key, is_leaf=s.pred, **s.kw),
                optree.tree_min(s.tree, default=None, key=key, is_leaf=s.pred, **s.kw),
                optree.tree_any(s.tree, is_leaf=s.pred, **s.kw))

    @op('treespec_funcs')
    def _(s):
        sp = s.spec
        n = sp.num_children
        return (optree.treespec_paths(sp), optree.treespec_accessors(sp), optree.treespec_entries(sp), optree.treespec_children(sp),
                optree.treespec_one_level(sp), [optree.treespec_entry(sp, i) for i in range(-n, n)],
                [optree.treespec_child(sp, i) for i in range(-n, n)], optree.treespec_is_leaf(sp), optree.treespec_is_leaf(sp, strict=False),
                optree.treespec_is_strict_leaf(sp), optree.treespec_is_one_level(sp), optree.treespec_is_prefix(s.prefix_spec, sp),
                optree.treespec_is_suffix(sp, s.prefix_spec, strict=True), optree.treespec_is_prefix(sp, s.other_spec))

    @op('constructors')
    def _(s):
        a, b, c = s.spec, s.prefix_spec, s.other_spec
        kw = s.kw
        return (optree.treespec_none(**kw), optree.treespec_leaf(**kw), optree.treespec_namedtuple(U.NT1(a, b), **kw), optree.treespec_namedtuple(U.NT0(), **kw),
                optree.treespec_structseq(U.make_structseq([a, b, c, a, b, c, a, b, c]), **kw),
                optree.treespec_ordereddict([(U.Key(2), a), (U.Key(1), b)], **kw), optree.treespec_ordereddict({'z': c}, y=b, **kw),
                optree.treespec_defaultdict(list, {U.Key(2): a, U.Key(1): c}, **kw), optree.treespec_defaultdict(None, x=a, **kw),
                optree.treespec_deque([a, c], maxlen=3, **kw), optree.treespec_deque((), **kw),
                optree.treespec_dict({'b': b, 'a': a}, **kw), optree.treespec_dict([(U.Key(1), a)], k=b, **kw))

    @op('compose')
    def _(s):
        return s.prefix_spec.compose(s.other_spec)

    @op('common_suffix')
    def _(s):
        return (s.prefix_spec.broadcast_to_common_suffix(s.spec), s.spec.broadcast_to_common_suffix(s.prefix_spec))

    @op('common_suffix_mismatch')
    def _(s):
        return s.other_spec.broadcast_to_common_suffix(s.spec)

    return o


OPS = _ops()
OP_NAMES = tuple(OPS)


# ------------------------------------------------------------------ outcomes
def outcome(fn, scn):
    try:
        return ('ok', fn(scn))
    except BaseException as e:  # noqa: BLE001 - judged by the oracle
        e.__traceback__ = None
        return ('exc', e)


def describe_outcome(o):
    if o[0] == 'exc':
        return '%s: %s' % (type(o[1]).__name__, str(o[1])[:200])
    return 'returned ' + type(o[1]).__name__


def same_outcome(a, b):
    from optsim.same import same
    if a[0] != b[0]:
        return 'reference %s vs observed %s' % (describe_outcome(a), describe_outcome(b))
    if a[0] == 'exc':
        if type(a[1]) is not type(b[1]):
            return 'exception type %s vs %s' % (type(a[1]).__name__, type(b[1]).__name__)
        return None
    return same(a[1], b[1])
