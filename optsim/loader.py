"""The *restarted node* of C11: ``python -m optsim.loader <blob>`` runs in a fresh, single-threaded
interpreter, replays a registration log (possibly different from the dumper's), rebuilds the same
trees from the same tape seeds, loads each pickle and reports what it saw as JSON on stdout."""
from __future__ import annotations

import contextlib
import gc
import json
import pickle
import sys


def main():
    with open(sys.argv[1], 'rb') as f:
        blob = pickle.load(f)
    import optree
    from optsim import gen
    from optsim import universe as U
    from optsim.scenario import GLOBAL
    from optsim.specobs import observe, diff
    from optsim.tape import Tape
    import warnings
    classes = {c.__name__: c for c in U.CUSTOM_CLASSES}
    classes.update({'NTM': U.NTM, 'struct_time': U.STRUCTSEQ_TYPES[0]})
    for (cname, ns, style, rid) in blob['reg_log']:
        f = U.Funcs(classes[cname], rid, style)
        with warnings.catch_warnings():
            warnings.simplefilter('ignore')
            optree.register_pytree_node(classes[cname], f.flatten, f.unflatten, namespace=GLOBAL if ns is None else ns)
    out = []
    for item in blob['items']:
        res = {'id': item['id']}
        ctx = gen.Ctx(kinds=item['kinds'], key_styles=item['key_styles'], custom_classes=[classes[n] for n in item['custom']])
        tree = gen.gen_tree(Tape(seed=item['tree_seed']), item['budget'], ctx)
        if item.get('wrap_ntm'):
            tree = [tree, U.NTM(U.Leaf(90001), [U.Leaf(90002)])]
        if item.get('gc'):
            gc.collect()
        def mode_cm(m):
            if m is None:
                return contextlib.nullcontext()
            return optree.dict_insertion_ordered(True, namespace=GLOBAL if m == '' else m)

        load_cm = mode_cm(item.get('load_mode_ns'))
        try:
            with load_cm:
                loaded = pickle.loads(item['data'])
            res['loaded'] = True
        except BaseException as e:  # noqa: BLE001
            res['loaded'] = False
            res['error'] = '%s: %s' % (type(e).__name__, str(e)[:200])
            out.append(res)
            continue
        try:
            res['obs'] = observe(loaded)
            if item.get('derived'):
                res['eq_fresh'] = res['hash_eq_fresh'] = True
                res['fresh_diff'] = None
            else:
                with mode_cm(item.get('mode_ns')):
                    fresh = optree.tree_structure(tree, none_is_leaf=item['nil'], namespace=item['ns'])
                res['eq_fresh'] = bool(loaded == fresh) and not bool(loaded != fresh)
                res['hash_eq_fresh'] = hash(loaded) == hash(fresh)
                res['fresh_diff'] = diff(observe(fresh), res['obs'])
            again = pickle.loads(pickle.dumps(loaded, protocol=item['proto']))
            res['redump_ok'] = bool(again == loaded) and hash(again) == hash(loaded)
        except BaseException as e:  # noqa: BLE001
            res['post_error'] = '%s: %s' % (type(e).__name__, str(e)[:200])
        out.append(res)
    # the process must still be healthy after refused loads
    try:
        s = optree.tree_structure({'a': (1, 2), 'b': [3]})
        ok = pickle.loads(pickle.dumps(s)) == s
    except BaseException as e:  # noqa: BLE001
        ok = False
    sys.stdout.write(json.dumps({'results': out, 'healthy': ok}))


if __name__ == '__main__':
    main()
